"""pyvc interpreter: symbolic execution of real function bodies (one path per run,
re-executed under an explorer that enumerates the decision tree), VC generation and
discharge with z3.  See DESIGN.md section 2.
"""
from __future__ import annotations

import ast
import builtins as _bi
import enum
import inspect as _inspect
import time
import types
import z3

from . import sym
from .sym import (VInt, VBool, VStr, VAtom, VConst, VTuple, VObj, VList, VDict, VFunc,
                  VOpaque, VDyn, VFloat, V, Unsupported, sand, sor, atom)


import os
TRACE = bool(os.environ.get("PYVC_TRACE"))
RLIMIT_PER_MS = int(os.environ.get("PYVC_RLIMIT_PER_MS", "4000"))   # z3 resource units per "ms" of budget


# ----------------------------------------------------------------------------- control signals
class _Return(Exception):
    def __init__(self, val):
        self.val = val


class _Break(Exception):
    pass


class _Continue(Exception):
    pass


class _PathEnd(Exception):
    """The current path is finished (cut at a loop head, or infeasible)."""


class VExc(V):
    """An exception value. cls is a concrete python class; exact=False means 'cls or any
    subclass of it' (havocked callables)."""

    kind = "exc"

    def __init__(self, cls, origin="", okind="RAISES", exact=True, lineno=0):
        self.cls = cls
        self.origin = origin
        self.okind = okind
        self.exact = exact
        self.lineno = lineno
        self.fields = {}

    def __repr__(self):
        return f"VExc({self.cls.__name__} @ {self.origin})"


class _Raise(Exception):
    def __init__(self, exc):
        self.exc = exc


class StarArgs:
    """A *symbolic_list argument of a call (lands in the callee's *args parameter)."""

    def __init__(self, lst):
        self.lst = lst


class ListObj:
    __slots__ = ("len", "items", "spec", "arrays")

    def __init__(self, length, items=None, spec=None, arrays=None):
        self.len = length
        self.items = items    # python list of V when concretely known, else None
        self.spec = spec      # element type spec (codec.py) when known
        self.arrays = arrays  # z3 arrays (one per component of spec) when items is None

    @property
    def elem(self):
        return self.spec

    def copy(self):
        return ListObj(self.len, None if self.items is None else list(self.items), self.spec,
                       None if self.arrays is None else list(self.arrays))


class State:
    def __init__(self):
        self.env = {}
        self.heap = {}      # (oid, attr) -> V
        self.lists = {}     # oid -> ListObj
        self.dicts = {}     # oid -> python dict  key(str) -> V  (concrete-key dicts only)
        self.spec = False
        self.old = None     # snapshot for old()
        self.ghost = {}
        self.mdom = None    # map heap (pyvc/maps.py): immutable z3 terms
        self.mval = None
        self.mnext = None
        self.refheap = {}   # (class name, attr) -> z3 Array Ref -> Val: declared mutable fields of
                            # symbolic objects (pyvc/refs.py)

    def snapshot(self):
        s = State()
        s.env = dict(self.env)
        s.heap = dict(self.heap)
        s.lists = {k: v.copy() for k, v in self.lists.items()}
        s.dicts = {k: dict(v) for k, v in self.dicts.items()}
        s.ghost = dict(self.ghost)
        s.mdom, s.mval, s.mnext = self.mdom, self.mval, self.mnext
        s.refheap = dict(self.refheap)
        return s


# ----------------------------------------------------------------------------- explorer
class Explorer:
    """Enumerates the decision tree by re-execution (depth-first)."""

    def __init__(self, max_paths=4000):
        self.todo = [[]]
        self.max_paths = max_paths
        self.paths = 0

    def next_prefix(self):
        if not self.todo:
            return None
        self.paths += 1
        if self.paths > self.max_paths:
            raise Unsupported(f"more than {self.max_paths} paths")
        self.decisions = self.todo.pop()
        self.pos = 0
        return self.decisions

    def at_frontier(self):
        return self.pos >= len(self.decisions)

    def replay(self):
        d = self.decisions[self.pos]
        self.pos += 1
        return d

    def record(self, taken, alternatives):
        """Record a new decision at the frontier; alternatives are explored later."""
        for alt in alternatives:
            self.todo.append(self.decisions[: self.pos] + [alt])
        self.decisions.append(taken)
        self.pos += 1
        return taken


# ----------------------------------------------------------------------------- obligations
class Obligation:
    __slots__ = ("func", "kind", "text", "lineno", "status", "paths", "time", "model", "backend",
                 "detail")

    def __init__(self, func, kind, text, lineno=0):
        self.func = func
        self.kind = kind
        self.text = text
        self.lineno = lineno
        self.status = "discharged"   # discharged | refuted | unknown
        self.paths = 0
        self.time = 0.0
        self.model = None
        self.backend = "z3"
        self.detail = ""

    @property
    def oid(self):
        return f"{self.func}/{self.kind}/{self.text}"


def _src(node):
    try:
        return ast.unparse(node)
    except Exception:  # pragma: no cover
        return "<?>"


# ----------------------------------------------------------------------------- interpreter
class Interp:
    def __init__(self, world, fnref, contract, timeout_ms=20000, rlimit=0):
        self.world = world          # contracts registry, shapes, theories, source loader
        self.fnref = fnref          # FnRef of the function under verification
        self.contract = contract
        self.explorer = Explorer(max_paths=contract.max_paths if contract else 4000)
        self.obls = {}              # (kind, text) -> Obligation
        self.assumptions = set()
        self.timeout_ms = timeout_ms * (getattr(contract, "budget", 1) or 1)
        self.solver_time = 0.0
        self.solver_calls = 0
        self.reachable_exits = 0
        self.unsupported = []
        self.depth = 0
        self.frames = []
        self.loop_ordinals = {}
        self._cache = {}
        self.S = None
        self.silent = False
        self.live_ghost = None
        self.entry_env = None
        self.live_olds = []
        self.live_heap = None

    # ---- path-local solver -------------------------------------------------
    def new_path(self):
        """Start (re-)executing a path.  The solver persists across the paths of one function:
        scopes pushed at decision points are popped back to the branching decision, and the
        shared prefix is replayed silently (python state only, no solver work)."""
        ex = self.explorer
        prefix = ex.decisions
        if self.S is None:
            self.S = z3.Solver()
            # the budget that decides a verdict is z3's resource counter (deterministic, the same
            # whether the machine is idle or all cores are busy); the wall-clock timeout is only a
            # far backstop
            self.S.set("timeout", self.timeout_ms * 6)
            self.S.set("rlimit", RLIMIT_PER_MS * self.timeout_ms)
            self.str_arrays = {}
            self.base_scope = {}
            self.theory_stack = []
            self.world.theory_reset(self)
        self.pc = []
        self.qfacts = []    # quantified assumptions of this path: used only to discharge obligations
        self.namer = sym.Namer()
        self.oid_counter = 0
        self.live_olds = []
        self.live_heap = None
        self.live_ghost = None
        self.mm_lists = {}
        self.iter_snaps = []
        if prefix:
            self.silent_until = len(prefix) - 1
            self.silent = True
            target = self.base_scope[self.silent_until]
            while self.S.num_scopes() > target:
                self.S.pop()
                self.world.theory_restore(self, self.theory_stack.pop())
        else:
            self.silent_until = 0
            self.silent = False

    def open_scope(self):
        """Called when a decision is consumed (index = explorer.pos before consumption)."""
        d = self.explorer.pos
        if self.silent:
            if d < self.silent_until:
                return
            self.silent = False
        self.base_scope[d] = self.S.num_scopes()
        self.theory_stack.append(self.world.theory_snapshot(self))
        self.S.push()

    def sadd(self, fact):
        """Add a fact to the solver (skipped while silently replaying a shared prefix)."""
        if not self.silent:
            self.S.add(fact)

    def fresh_oid(self):
        self.oid_counter += 1
        return self.oid_counter

    def assume(self, fact):
        if isinstance(fact, bool):
            fact = z3.BoolVal(fact)
        if z3.is_true(fact):
            return
        self.pc.append(fact)
        if _has_quantifier(fact):
            # kept out of the persistent solver: feasibility checks run without it (an
            # over-approximation of the feasible paths, which is sound), obligations get it
            self.qfacts.append(fact)
            if not self.silent:
                self.world.theory_saturate(self, [fact])
            return
        if self.silent:
            return
        self.S.add(fact)
        self.world.theory_saturate(self, [fact])

    def _check(self, extra, use_q=False, budget=1.0):
        t0 = time.time()
        if budget != getattr(self, "_budget", 1.0):
            self.S.set("rlimit", int(RLIMIT_PER_MS * self.timeout_ms * budget))
            self._budget = budget
        # theory instances are valid facts: add them permanently, outside the push scope
        self.world.theory_saturate(self, extra, transient=True)
        self.S.push()
        try:
            for e in extra:
                self.S.add(e)
            if use_q:
                for q in self.qfacts:
                    self.S.add(q)
            r = self.S.check()
            model = self.S.model() if r == z3.sat else None
        finally:
            self.S.pop()
        dt = time.time() - t0
        self.solver_time += dt
        self.solver_calls += 1
        if TRACE and dt > 0.5:
            print(f"[trace] check {r} {dt:.2f}s line={getattr(self, 'cur_line', '?')} "
                  f"extra={[str(e)[:120] for e in extra]}", flush=True)
        return r, model

    def feasible(self, extra=()):
        if self.silent or (not extra and not self.explorer.at_frontier()):
            return True   # replaying: an earlier run got past this point
        # feasibility is only pruning (unknown counts as feasible): a tenth of the budget is enough
        r, _ = self._check(list(extra), budget=0.1)
        return r != z3.unsat

    def decide(self, cond):
        """Branch on a z3 Bool; returns the python bool taken on this path."""
        cond = z3.simplify(cond)
        if z3.is_true(cond):
            return True
        if z3.is_false(cond):
            return False
        ex = self.explorer
        if not ex.at_frontier():
            self.open_scope()
            d = ex.replay()
        else:
            ft = self.feasible([cond])
            ff = self.feasible([z3.Not(cond)])
            self.open_scope()
            if ft and ff:
                d = ex.record(True, [False])
            elif ft:
                d = ex.record(True, [])
            elif ff:
                d = ex.record(False, [])
            else:
                ex.record(True, [])
                raise _PathEnd()
        self.assume(cond if d else z3.Not(cond))
        return d

    def choose(self, n, label=""):
        """Non-deterministic choice among n options (all explored)."""
        ex = self.explorer
        self.open_scope()
        if not ex.at_frontier():
            return ex.replay()
        return ex.record(0, list(range(1, n)))

    # ---- obligations ---------------------------------------------------------
    def oblige(self, kind, text, goal, lineno=0, func=None):
        """Record the VC  pc => goal  and try to discharge it."""
        func = func or self.fnref.qual
        key = (func, kind, text)
        ob = self.obls.get(key)
        if ob is None:
            ob = self.obls[key] = Obligation(func, kind, text, lineno)
        ob.paths += 1
        if isinstance(goal, bool):
            goal = z3.BoolVal(goal)
        g = z3.simplify(goal)
        if z3.is_true(g):
            return True
        if self.silent or not self.explorer.at_frontier():
            ob.paths -= 1
            return True   # replaying: this instance was decided by the run that explored the prefix
        t0 = time.time()
        # quantified assumptions of the path are part of every obligation's hypothesis; many
        # goals do not need them, so a quarter of the budget is first spent without them
        if self.qfacts:
            r, model = self._check([z3.Not(goal)], budget=0.03)
            if r != z3.unsat:
                r, model = self._check([z3.Not(goal)], use_q=True)
        else:
            r, model = self._check([z3.Not(goal)])
        if r == z3.unknown:
            # `unknown` from the incremental solver depends on the history of the process (names of
            # fresh constants, learned lemmas): retry in a fresh solver with other seeds, so that a
            # verdict does not depend on which functions a pool worker happened to verify before
            for seed in (1, 2, 3):
                s2 = z3.Solver()
                s2.set("rlimit", int(RLIMIT_PER_MS * self.timeout_ms))
                s2.set("random_seed", seed)
                s2.add(self.S.assertions())
                for q in self.qfacts:
                    s2.add(q)
                s2.add(z3.Not(goal))
                r = s2.check()
                self.solver_calls += 1
                if r != z3.unknown:
                    model = s2.model() if r == z3.sat else None
                    break
        ob.time += time.time() - t0
        if r == z3.unsat:
            return True
        if r == z3.sat:
            if ob.status != "refuted":
                ob.status = "refuted"
                # prefer a small counter-model (better chances of a native replay)
                for fn in self.world.model_prefs_fns:
                    for prefs in fn(self):
                        r2, m2 = self._check([z3.Not(goal)] + list(prefs), use_q=bool(self.qfacts))
                        if r2 == z3.sat:
                            model = m2
                            break
                ob.model = self.extract_model(model)
                ob.detail = f"path decisions={self.explorer.decisions[: self.explorer.pos]}"
                if os.environ.get("PYVC_DEBUG_PC"):
                    print("REFUTED", kind, text[:80]); print("GOAL", z3.simplify(goal))
                    for f_ in self.pc: print("  PC", str(z3.simplify(f_))[:300])
            return False
        if ob.status == "discharged":
            ob.status = "unknown"
            ob.detail = "solver returned unknown: " + self.S.reason_unknown()
        return False

    def note_safe(self, kind, text, lineno=0):
        """Register an obligation that was discharged by infeasibility of the error branch."""
        key = (self.fnref.qual, kind, text)
        ob = self.obls.get(key)
        if ob is None:
            ob = self.obls[key] = Obligation(self.fnref.qual, kind, text, lineno)
        ob.paths += 1
        return ob

    def extract_model(self, model):
        out = {}
        if model is None:
            return out
        for name, v in getattr(self, "param_syms", {}).items():
            try:
                out[name] = self.world.concretize(model, v, self)
            except Exception as e:  # pragma: no cover
                out[name] = f"<unavailable: {e}>"
        return out

    # ---- values ---------------------------------------------------------------
    def fresh_int(self, base="i"):
        return VInt(z3.Int(self.namer.fresh(base)))

    def fresh_bool(self, base="b"):
        return VBool(z3.Bool(self.namer.fresh(base)))

    def new_str_array(self, base):
        arr = z3.Array(self.namer.fresh(base), sym.I, sym.I)
        self.str_arrays[arr.get_id()] = arr   # keeps the AST (and so its id) alive
        return arr

    def fresh_str(self, base="s", maxlen=None):
        arr = self.new_str_array(base)
        n = z3.Int(self.namer.fresh(base + "_len"))
        self.assume(n >= 0)
        return VStr(arr=arr, lo=z3.IntVal(0), hi=n)

    def fresh_dyn(self, base="v"):
        return VDyn(z3.Const(self.namer.fresh(base), sym.ValS))

    def fresh(self, spec, label="x"):
        """Fresh symbolic value of a type spec (see World.SHAPES)."""
        if isinstance(spec, (list, tuple)) and spec and spec[0] == "tuple":
            return VTuple([self.fresh(s, f"{label}_{i}") for i, s in enumerate(spec[1:])])
        if isinstance(spec, tuple) and len(spec) == 2 and spec[0] == "list" and isinstance(spec[1], str) \
                and spec[1].startswith("ntuple:"):
            # a list of named tuples: each read yields an arbitrary tuple of the declared shape
            from .world import Seq
            n = self.fresh_int(label + "_len")
            self.assume(n.t >= 0)
            v = VOpaque(label)
            v.seq = Seq(length=n.t, item=lambda i: self.fresh(spec[1], label + "_item"))
            return v
        if isinstance(spec, (list, tuple)) and spec and spec[0] == "list":
            return self.fresh_list(spec[1], label)
        if spec == "mm" or (isinstance(spec, tuple) and spec and spec[0] == "mm"):
            v = VOpaque("multimap")
            v.abstract_mm = True
            v.touched = True          # a parameter: may already hold entries
            v.ghost_name = spec[1] if isinstance(spec, tuple) else None
            return v
        if spec == "lit_ctx":
            from graphql.utilities.validate_input_value import ValidationContext as VC
            items = [self.fresh("bool", "static"), self.fresh(("callback", "errs"), "on_error"),
                     self.fresh("opt:ref:VariableValues", "variables"),
                     self.fresh("opt:ref:FragmentVariableValues", "fragment_variable_values")]
            return VTuple(items, names=list(VC._fields), cls=VC)
        if isinstance(spec, tuple) and spec and spec[0] == "callback":
            return VFunc(None, builtin="callback", name=label, recv=VConst(spec))
        if not isinstance(spec, str):
            fe = getattr(self.world, "fresh_ext", None)
            r = fe(self, spec, label) if fe is not None else None
            if r is None:
                raise Unsupported(f"type spec {spec!r}")
            return r
        if spec == "int":
            return self.fresh_int(label)
        if spec == "nat":
            v = self.fresh_int(label)
            self.assume(v.t >= 0)
            return v
        if spec == "bool":
            return self.fresh_bool(label)
        if spec == "str":
            return self.fresh_str(label)
        if spec == "char":
            arr = self.new_str_array(label)
            return VStr(arr=arr, lo=z3.IntVal(0), hi=z3.IntVal(1))
        if spec == "none":
            return atom(None)
        if spec == "dyn":
            return self.fresh_dyn(label)
        if spec == "opaque":
            return VOpaque(label)
        if spec.startswith("atom:"):
            dom = self.world.atom_domain(spec[5:])
            t = z3.Int(self.namer.fresh(label))
            self.assume(sor(*[t == c for c in dom]))
            return VAtom(t)
        if isinstance(spec, str) and spec.startswith("exc:"):
            return VExc(self.world.resolve_class(spec[4:]), origin=label, exact=False)
        if isinstance(spec, str) and spec.startswith("opt:"):
            if self.choose(2, "opt " + label) == 0:
                return atom(None)
            return self.fresh(spec[4:], label)
        if spec.startswith("obj:"):
            cls = self.world.resolve_class(spec[4:])
            return VObj(cls, self.fresh_oid(), label)
        if spec.startswith("list"):
            elem = spec[5:] if spec.startswith("list:") else None
            return self.fresh_list(elem, label)
        if spec.startswith("ntuple:"):
            cls = self.world.resolve_class(spec[7:])
            names = list(cls._fields)
            shape = self.world.shape_of(cls)
            return VTuple([self.fresh(shape.get(n, "opaque"), f"{label}.{n}") for n in names],
                          names=names, cls=cls)
        fe = getattr(self.world, "fresh_ext", None)
        if fe is not None:
            r = fe(self, spec, label)
            if r is not None:
                return r
        raise Unsupported(f"type spec {spec!r}")

    def fresh_list(self, elem, label):
        from . import codec
        oid = self.fresh_oid()
        n = z3.Int(self.namer.fresh(label + "_len"))
        self.assume(n >= 0)
        arrays = None
        if elem is not None and elem != "opaque":
            arrays = codec.fresh_arrays(self, elem, label)
        self.st.lists[oid] = ListObj(n, None, elem if elem != "opaque" else None, arrays)
        return VList(oid)

    def resolve(self, v):
        """Outside specifications a lazy union None|T is resolved by forking."""
        from .codec import VOpt
        if isinstance(v, VOpt):
            if self.st.spec:
                return v
            if self.decide(v.is_none):
                return atom(None)
            return self.resolve(v.val)
        if isinstance(v, VTuple) and any(isinstance(x, (VOpt, VTuple)) for x in v.items):
            return VTuple([self.resolve(x) for x in v.items], v.names, v.cls)
        return v

    def truth(self, v):
        """z3 Bool for Python truthiness of v."""
        from .codec import VOpt
        if isinstance(v, VOpt):
            return z3.And(z3.Not(v.is_none), self.truth(v.val))
        if isinstance(v, VBool):
            return v.t
        if isinstance(v, VInt):
            return v.t != 0
        if isinstance(v, VStr):
            return v.length() > 0
        if isinstance(v, VAtom):
            try:
                return z3.BoolVal(bool(sym.atom_obj(v)))
            except KeyError:
                falsy = [c for c, o in enumerate(sym.ATOMS.objs) if not _truthy(o)]
                return sand(*[v.t != c for c in falsy])
        if isinstance(v, VTuple):
            return z3.BoolVal(len(v.items) > 0)
        if isinstance(v, VList):
            return self.st.lists[v.oid].len > 0
        if isinstance(v, VDict):
            return z3.BoolVal(len(self.st.dicts[v.oid]) > 0)
        if isinstance(v, VObj):
            cls = v.cls
            if isinstance(cls, type) and (hasattr(cls, "__bool__") or hasattr(cls, "__len__")):
                raise Unsupported(f"truthiness of {cls.__name__} with __bool__/__len__")
            return z3.BoolVal(True)
        if isinstance(v, VConst):
            return z3.BoolVal(bool(v.obj))
        if isinstance(v, VFunc):
            return z3.BoolVal(True)
        if isinstance(v, VDyn):
            return self.world.dyn_truth(self, v)
        if isinstance(v, VOpaque):
            return z3.Bool(self.namer.fresh("truth"))
        if isinstance(v, VFloat):
            return z3.Or(v.cls != 0, v.val != 0)
        if isinstance(v, VExc):
            return z3.BoolVal(True)
        te = getattr(self.world, "truth_ext", None)
        if te is not None:
            r = te(self, v)
            if r is not None:
                return r
        raise Unsupported(f"truthiness of {v!r}")

    def lift(self, obj, name=None):
        """Concrete python object (module constant) -> symbolic value."""
        if isinstance(obj, bool):
            return VBool(obj)
        if isinstance(obj, int):
            return VInt(obj)
        if isinstance(obj, str):
            return VStr(lit=obj)
        if obj is None or obj is Ellipsis or isinstance(obj, enum.Enum):
            return atom(obj)
        if self.world.is_atom_object(obj):
            return atom(obj)
        if isinstance(obj, (types.FunctionType, types.BuiltinFunctionType, type(len))):
            return VFunc(obj, name=name or getattr(obj, "__name__", None))
        if isinstance(obj, tuple) and not hasattr(obj, "_fields"):
            return VTuple([self.lift(o) for o in obj])
        if isinstance(obj, float):
            return self.world.lift_float(self, obj)
        return VConst(obj, name)

    # ---- raising ---------------------------------------------------------------
    def throw(self, cls, node, okind="RAISES", text=None):
        raise _Raise(VExc(cls, origin=text or _src(node), okind=okind,
                          lineno=getattr(node, "lineno", 0)))

    def guard(self, ok_cond, cls, node, okind, text=None):
        """Continue if ok_cond holds; otherwise the builtin raises cls.  In spec mode total."""
        if self.st.spec:
            return
        text = text or _src(node)
        self.note_safe(okind, text, getattr(node, "lineno", 0))
        if self.decide(ok_cond):
            return
        self.throw(cls, node, okind, text)

    # ---- expression evaluation -----------------------------------------------
    def ev(self, node):
        m = getattr(self, "ev_" + type(node).__name__, None)
        if m is None:
            raise Unsupported(f"expression {type(node).__name__}: {_src(node)}")
        return m(node)

    def ev_Constant(self, node):
        v = node.value
        if isinstance(v, bool):
            return VBool(v)
        if isinstance(v, int):
            return VInt(v)
        if isinstance(v, str):
            return VStr(lit=v)
        if v is None or v is Ellipsis:
            return atom(v)
        if isinstance(v, float):
            return self.world.lift_float(self, v)
        raise Unsupported(f"constant {v!r}")

    def ev_Name(self, node):
        name = node.id
        st = self.st
        if name in st.env:
            return st.env[name]
        if st.spec and name in self.world.spec_funcs:
            return VFunc(None, builtin="spec:" + name, name=name)
        for fr in reversed(self.frames):
            if name in fr.get("closure", {}):
                return fr["closure"][name]
        g = self.frames[-1]["globals"] if self.frames else {}
        if name in g:
            ov = self.world.const_overrides.get(f"{g.get('__name__')}.{name}")
            if ov is not None:
                key = ("const", g.get("__name__"), name)
                if key not in st.ghost:
                    st.ghost[key] = self.fresh(ov, name)
                return st.ghost[key]
            return self.lift(g[name], name)
        if hasattr(_bi, name):
            o = getattr(_bi, name)
            if isinstance(o, type) and name not in ("int", "str", "bool", "float", "tuple", "list",
                                                    "dict", "range", "enumerate", "type", "set",
                                                    "frozenset", "map", "zip", "reversed"):
                return VConst(o, name)
            return VFunc(o, name=name, builtin="bi:" + name)
        if st.spec and name in self.world.spec_consts:
            return self.world.spec_consts[name](self)
        raise Unsupported(f"unknown name {name}")

    def ev_Tuple(self, node):
        items = []
        for e in node.elts:
            if isinstance(e, ast.Starred):
                v = self.ev(e.value)
                items.extend(self.iter_concrete(v, e))
            else:
                items.append(self.ev(e))
        return VTuple(items)

    def ev_List(self, node):
        items = []
        symbolic = False
        for e in node.elts:
            if isinstance(e, ast.Starred):
                v = self.ev(e.value)
                try:
                    items.extend(self.iter_concrete(v, e))
                except Unsupported:
                    if not isinstance(v, VList):
                        raise
                    items.append(StarArgs(v))
                    symbolic = True
            else:
                items.append(self.ev(e))
        if symbolic:
            return self.concat_parts(items, None, "lst")
        return self.new_list(items)

    def concat_parts(self, parts, elem, label):
        """A list made of concrete items and symbolic lists (array contents when specs agree)."""
        from . import codec
        if elem is None:
            specs = set()
            for x in parts:
                if isinstance(x, StarArgs):
                    specs.add(repr(self.st.lists[x.lst.oid].spec))
                    elem_c = self.st.lists[x.lst.oid].spec
            elem = elem_c if len(specs) == 1 else None
            from .codec import VOpt
            if isinstance(elem, str) and not elem.startswith("opt:") and any(
                    isinstance(x, VAtom) or isinstance(x, VOpt) for x in parts
                    if not isinstance(x, StarArgs)):
                elem = "opt:" + elem
        total = z3.IntVal(0)
        arrays = None
        if elem is not None:
            try:
                arrays = codec.fresh_arrays(self, elem, label)
            except Unsupported:
                arrays, elem = None, None
        pos = z3.IntVal(0)
        for x in parts:
            if isinstance(x, StarArgs):
                L = self.st.lists[x.lst.oid]
                if arrays is not None and L.arrays is not None:
                    j = z3.Int(self.namer.fresh("j"))
                    inside = z3.And(pos <= j, j < pos + L.len)
                    srcs = list(L.arrays)
                    if len(srcs) + 1 == len(arrays):   # the result holds optional elements
                        srcs = [z3.K(sym.I, z3.BoolVal(False))] + srcs
                    arrays = [z3.Lambda([j], z3.If(inside, z3.Select(src, j - pos), z3.Select(arr, j)))
                              for arr, src in zip(arrays, srcs)]
                else:
                    arrays = None
                pos = z3.simplify(pos + L.len)
            else:
                if arrays is not None:
                    try:
                        terms = codec.encode(self, elem, x)
                    except Unsupported:
                        terms = None
                    if terms is None:
                        arrays = None
                    else:
                        arrays = [z3.Store(arr, pos, t) for arr, t in zip(arrays, terms)]
                pos = z3.simplify(pos + 1)
        oid = self.fresh_oid()
        self.st.lists[oid] = ListObj(pos, None, elem if arrays is not None else None, arrays)
        return VList(oid)

    def new_list(self, items):
        oid = self.fresh_oid()
        self.st.lists[oid] = ListObj(z3.IntVal(len(items)), list(items))
        return VList(oid)

    def iter_concrete(self, v, node):
        if isinstance(v, VTuple):
            return list(v.items)
        if isinstance(v, VList):
            lo = self.st.lists[v.oid]
            if lo.items is not None:
                return list(lo.items)
        raise Unsupported(f"iteration over non-concrete sequence {_src(node)}")

    def ev_Dict(self, node):
        d = {}
        for k, v in zip(node.keys, node.values):
            if k is None:
                raise Unsupported("dict unpacking")
            kv = self.ev(k)
            if not (isinstance(kv, VStr) and kv.lit is not None):
                raise Unsupported("dict literal with non-literal key")
            d[kv.lit] = self.ev(v)
        oid = self.fresh_oid()
        self.st.dicts[oid] = d
        return VDict(oid)

    def ev_JoinedStr(self, node):
        total = z3.IntVal(0)
        concrete = []
        exact_len = True
        for part in node.values:
            if isinstance(part, ast.Constant):
                total = total + len(part.value)
                if concrete is not None:
                    concrete.append(part.value)
            else:
                v = self.ev(part.value)
                if isinstance(v, VStr) and part.format_spec is None and part.conversion == -1:
                    total = total + v.length()
                elif isinstance(v, VAtom) and part.format_spec is None and part.conversion == -1 \
                        and z3.is_int_value(z3.simplify(v.t)) and sym.atom_obj(v) is None:
                    total = total + 4      # str(None)
                else:
                    exact_len = False
                if concrete is not None and part.format_spec is None and part.conversion == -1 \
                        and isinstance(v, VStr) and v.lit is not None:
                    concrete.append(v.lit)
                else:
                    concrete = None
                if part.format_spec is not None:
                    spec = _src(part.format_spec)
                    if not isinstance(v, (VInt, VStr)):
                        raise Unsupported(f"format spec {spec} on {v!r}")
                self.str_of(v, part)  # __str__/__format__ of the value must be total
        if concrete is not None:
            return VStr(lit="".join(concrete))
        s = self.fresh_str("fstr")
        if exact_len:
            self.assume(s.hi == z3.simplify(total))   # an f-string of str parts: lengths add up
        return s

    def str_of(self, v, node):
        if isinstance(v, (VStr, VInt, VBool, VAtom, VTuple, VConst, VFloat, VExc)):
            return
        if isinstance(v, VObj):
            self.world.object_str(self, v, node)
            return
        if isinstance(v, (VDyn, VOpaque, VList, VDict)):
            self.world.dyn_str(self, v, node)
            return
        h = getattr(self.world, "str_of_ext", None)
        if h is not None and h(self, v, node):
            return
        raise Unsupported(f"str() of {v!r}")

    def ev_NamedExpr(self, node):
        v = self.ev(node.value)
        self.assign(node.target, v, node)
        return v

    def ev_IfExp(self, node):
        c = self.truth(self.ev(node.test))
        if self.st.spec:
            cs = z3.simplify(c) if z3.is_expr(c) else c
            if z3.is_true(cs):          # a condition that is concrete on this path (e.g. `x if x else ..`
                return self.ev(node.body)    # for an Optional that is None here): only that branch exists
            if z3.is_false(cs):
                return self.ev(node.orelse)
            a, b = self.ev(node.body), self.ev(node.orelse)
            return self.merge(c, a, b)
        if self.decide(c):
            return self.ev(node.body)
        return self.ev(node.orelse)

    def merge(self, c, a, b):
        if isinstance(a, VInt) and isinstance(b, VInt):
            return VInt(z3.If(c, a.t, b.t))
        if isinstance(a, VBool) and isinstance(b, VBool):
            return VBool(z3.If(c, a.t, b.t))
        if isinstance(a, VAtom) and isinstance(b, VAtom):
            return VAtom(z3.If(c, a.t, b.t))
        if isinstance(a, VStr) and isinstance(b, VStr):
            va, vb = sym.as_view(a), sym.as_view(b)
            j = z3.Int(self.namer.fresh("j"))
            arr = z3.Lambda([j], z3.If(c, z3.Select(va.arr, va.lo + j), z3.Select(vb.arr, vb.lo + j)))
            return VStr(arr=arr, lo=z3.IntVal(0), hi=z3.If(c, va.length(), vb.length()))
        raise Unsupported("merge of non-scalar values in a specification expression")

    def ev_BoolOp(self, node):
        is_and = isinstance(node.op, ast.And)
        if self.st.spec:
            ts = [self.truth(self.ev(v)) for v in node.values]
            return VBool(sand(*ts) if is_and else sor(*ts))
        v = None
        for i, e in enumerate(node.values):
            v = self.ev(e)
            if i == len(node.values) - 1:
                return v
            t = self.truth(v)
            d = self.decide(t)
            if is_and and not d:
                return v
            if not is_and and d:
                return v
        return v

    def ev_UnaryOp(self, node):
        v = self.ev(node.operand)
        if isinstance(node.op, ast.Not):
            return VBool(z3.Not(self.truth(v)))
        if isinstance(node.op, ast.USub):
            if isinstance(v, VInt):
                return VInt(-v.t)
            if isinstance(v, VFloat):
                return self.world.float_neg(self, v)
        raise Unsupported(f"unary {type(node.op).__name__} on {v!r}")

    def as_int(self, v, node):
        if isinstance(v, VInt):
            return v.t
        if isinstance(v, VBool):
            return z3.If(v.t, 1, 0)
        if self.st.spec and isinstance(v, (VAtom, VOpaque)):
            return z3.Int(self.namer.fresh("undef"))   # undefined operand inside a guarded clause
        raise Unsupported(f"integer expected: {_src(node) if node is not None else '?'} = {v!r}")

    def ev_BinOp(self, node):
        a = self.ev(node.left)
        b = self.ev(node.right)
        return self.binop(node.op, a, b, node)

    def binop(self, op, a, b, node):
        if self.st.spec and (isinstance(a, VAtom) or isinstance(b, VAtom)) \
                and isinstance(op, (ast.Add, ast.Sub, ast.Mult)):
            return self.fresh_int("undef")   # arithmetic on None inside a (guarded) clause: total
        if isinstance(a, (VInt, VBool)) and isinstance(b, (VInt, VBool)):
            x, y = self.as_int(a, node), self.as_int(b, node)
            if isinstance(op, ast.Add):
                return VInt(x + y)
            if isinstance(op, ast.Sub):
                return VInt(x - y)
            if isinstance(op, ast.Mult):
                return VInt(x * y)
            if isinstance(op, ast.FloorDiv):
                self.guard(y != 0, ZeroDivisionError, node, "SAFE-Div")
                return VInt(_floordiv(x, y))
            if isinstance(op, ast.Mod):
                self.guard(y != 0, ZeroDivisionError, node, "SAFE-Div")
                return VInt(_pymod(x, y))
            if isinstance(op, ast.LShift):
                ys = z3.simplify(y)
                if z3.is_int_value(ys) and ys.as_long() >= 0:
                    return VInt(x * (2 ** ys.as_long()))
                raise Unsupported("shift by a non-constant amount")
            if isinstance(op, ast.BitOr):
                return VInt(self.world.bit_or(self, x, y, node))
            if isinstance(op, ast.BitAnd):
                return VInt(self.world.bit_and(self, x, y, node))
        if isinstance(a, VStr) and isinstance(b, VStr) and isinstance(op, ast.Add):
            return self.world.str_concat(self, a, b)
        if isinstance(a, VStr) and isinstance(op, ast.Mod):
            return self.fresh_str("fmt")
        if isinstance(a, VList) and isinstance(b, VList) and isinstance(op, ast.Add):
            la, lb = self.st.lists[a.oid], self.st.lists[b.oid]
            if la.items is not None and lb.items is not None:
                return self.new_list(la.items + lb.items)
            oid = self.fresh_oid()
            self.st.lists[oid] = ListObj(la.len + lb.len, None, la.elem or lb.elem)
            return VList(oid)
        if isinstance(a, VTuple) and isinstance(b, VTuple) and isinstance(op, ast.Add):
            return VTuple(a.items + b.items)
        r = self.world.binop_ext(self, op, a, b, node)
        if r is not None:
            return r
        raise Unsupported(f"binary {type(op).__name__} on {a!r}, {b!r}")

    def ev_Compare(self, node):
        left = self.ev(node.left)
        conds = []
        for op, rnode in zip(node.ops, node.comparators):
            right = self.ev(rnode)
            c = self.compare(op, left, right, node)
            conds.append(c)
            if len(node.ops) > 1 and not self.st.spec:
                # chained comparison short-circuits; operands here are side-effect free
                pass
            left = right
        return VBool(sand(*conds))

    def compare(self, op, a, b, node):
        if isinstance(op, (ast.Is, ast.IsNot)):
            r = self.identical(a, b, node)
            return r if isinstance(op, ast.Is) else z3.Not(r)
        if isinstance(op, (ast.Eq, ast.NotEq)):
            r = self.equal(a, b, node)
            return r if isinstance(op, ast.Eq) else z3.Not(r)
        if isinstance(op, (ast.In, ast.NotIn)):
            r = self.contains(b, a, node)
            return r if isinstance(op, ast.In) else z3.Not(r)
        if isinstance(a, (VInt, VBool)) and isinstance(b, (VInt, VBool)):
            x, y = self.as_int(a, node), self.as_int(b, node)
            return {ast.Lt: x < y, ast.LtE: x <= y, ast.Gt: x > y, ast.GtE: x >= y}[type(op)]
        if self.st.spec and (isinstance(a, (VAtom, VOpaque)) or isinstance(b, (VAtom, VOpaque))):
            return z3.BoolVal(False)   # ordering with None inside a (guarded) clause: total, false
        if isinstance(a, VStr) and isinstance(b, VStr):
            if isinstance(op, ast.Lt):
                return sym.str_lt(a, b, False)
            if isinstance(op, ast.LtE):
                return sym.str_lt(a, b, True)
            if isinstance(op, ast.Gt):
                return sym.str_lt(b, a, False)
            if isinstance(op, ast.GtE):
                return sym.str_lt(b, a, True)
        r = self.world.compare_ext(self, op, a, b, node)
        if r is not None:
            return r
        raise Unsupported(f"comparison {type(op).__name__} on {a!r}, {b!r}")

    def identical(self, a, b, node):
        from .codec import VOpt
        if isinstance(a, VOpt) or isinstance(b, VOpt):
            o, other = (a, b) if isinstance(a, VOpt) else (b, a)
            if isinstance(other, VAtom):
                try:
                    if sym.atom_obj(other) is None:
                        return o.is_none
                except KeyError:
                    pass
            raise Unsupported("identity test of an optional value against a non-None value")
        if isinstance(a, VAtom) and isinstance(b, VAtom):
            return a.t == b.t
        if isinstance(a, VObj) and isinstance(b, VObj):
            return z3.BoolVal(a.oid == b.oid)
        if isinstance(a, VList) and isinstance(b, VList):
            return z3.BoolVal(a.oid == b.oid)
        if isinstance(a, VDict) and isinstance(b, VDict):
            return z3.BoolVal(a.oid == b.oid)
        if isinstance(a, VDyn) or isinstance(b, VDyn):
            return self.world.dyn_identical(self, a, b, node)
        if isinstance(a, VBool) and isinstance(b, VBool):
            return a.t == b.t
        if isinstance(a, VConst) and isinstance(b, VConst):
            return z3.BoolVal(a.obj is b.obj)
        if isinstance(a, VOpaque) or isinstance(b, VOpaque):
            return z3.Bool(self.namer.fresh("is"))
        ie = getattr(self.world, "identical_ext", None)
        if ie is not None:
            r = ie(self, a, b, node)
            if r is not None:
                return r
        if type(a) is not type(b):
            # values of different kinds are never the same object
            return z3.BoolVal(False)
        raise Unsupported(f"identity of {a!r} and {b!r}")

    def equal(self, a, b, node):
        if isinstance(a, (VInt, VBool)) and isinstance(b, (VInt, VBool)):
            if isinstance(a, VBool) and isinstance(b, VBool):
                return a.t == b.t
            return self.as_int(a, node) == self.as_int(b, node)
        if isinstance(a, VStr) and isinstance(b, VStr):
            return sym.str_eq(a, b)
        if isinstance(a, VAtom) and isinstance(b, VAtom):
            return a.t == b.t   # enums / None compare by identity
        if isinstance(a, VTuple) and isinstance(b, VTuple):
            if len(a.items) != len(b.items):
                return z3.BoolVal(False)
            return sand(*[self.equal(x, y, node) for x, y in zip(a.items, b.items)])
        if isinstance(a, VDyn) or isinstance(b, VDyn):
            return self.world.dyn_equal(self, a, b, node)
        if isinstance(a, VAtom) or isinstance(b, VAtom):
            other = b if isinstance(a, VAtom) else a
            from .codec import VOpt as _VOpt
            if not isinstance(other, (VInt, VBool, VStr, VTuple, VList, VAtom, VDyn, VOpaque, _VOpt,
                                      VConst, VFloat)):
                at = a if isinstance(a, VAtom) else b
                try:
                    if sym.atom_obj(at) is None:
                        return z3.BoolVal(False)    # None equals no object
                except KeyError:
                    pass
            if isinstance(other, (VInt, VBool, VStr, VTuple, VList)):
                at = a if isinstance(a, VAtom) else b
                try:
                    o = sym.atom_obj(at)
                except KeyError:
                    raise Unsupported("== between symbolic atom and a value")
                if o is None or o is Ellipsis or (isinstance(o, enum.Enum)
                                                  and not isinstance(o, (int, str))):
                    return z3.BoolVal(False)
        if isinstance(a, VObj) and isinstance(b, VObj):
            if a.oid == b.oid:
                return z3.BoolVal(True)
            if not _has_custom_eq(a.cls):
                return z3.BoolVal(False)
        if isinstance(a, VFloat) or isinstance(b, VFloat):
            return self.world.float_cmp(self, ast.Eq(), a, b, node)
        if self.st.spec and (isinstance(a, VOpaque) or isinstance(b, VOpaque)):
            return z3.Bool(self.namer.fresh("undef_eq"))   # undefined operand in a guarded clause
        r = self.world.equal_ext(self, a, b, node)
        if r is not None:
            return r
        raise Unsupported(f"equality of {a!r} and {b!r}")

    def contains(self, container, item, node):
        if isinstance(container, VStr) and isinstance(item, VStr):
            if container.lit is not None:
                return sym.str_in_lit(item, container.lit)
            if item.lit is not None and len(item.lit) == 1:
                # a single character occurs in s iff some position holds it
                vv = sym.as_view(container)
                j = z3.Int(self.namer.fresh("j"))
                return z3.Exists([j], z3.And(vv.lo <= j, j < vv.hi,
                                             z3.Select(vv.arr, j) == ord(item.lit)))
            raise Unsupported("substring test against a non-literal string")
        if isinstance(container, VTuple):
            return sor(*[self.equal(item, x, node) for x in container.items])
        if isinstance(container, VConst) and isinstance(container.obj, (dict, frozenset, set)):
            keys = list(container.obj)
            return sor(*[self.equal(item, self.lift(k), node) for k in keys])
        if isinstance(container, VDict):
            d = self.st.dicts[container.oid]
            return sor(*[self.equal(item, VStr(lit=k), node) for k in d])
        if isinstance(container, VOpaque) and getattr(container, "abstract_set", False):
            return z3.Bool(self.namer.fresh("in_set"))
        if isinstance(container, VList):
            L = self.st.lists[container.oid]
            if L.items is not None:
                return sor(*[self.equal(item, x, node) for x in L.items])
            sp = L.spec
            if os.environ.get("PYVC_DEBUG"): print("IN-LIST", sp, item, L.len)
            if isinstance(sp, str) and (sp == "ty" or sp.startswith("ref:")) and hasattr(item, "t") \
                    and z3.is_expr(item.t):
                # elements compared by identity (GraphQL type objects, AST nodes: no __eq__ beyond
                # identity for types; nodes are only looked up by identity here): exact membership
                j = z3.Int(self.namer.fresh("j"))
                saved = self.st.spec
                self.st.spec = True
                try:
                    x = self.world.list_item(self, container, L, j, node)
                finally:
                    self.st.spec = saved
                if hasattr(x, "t") and z3.is_expr(x.t) and x.t.sort() == item.t.sort() and sp == "ty":
                    return z3.Exists([j], z3.And(0 <= j, j < L.len, x.t == item.t))
            return z3.Bool(self.namer.fresh("in_list"))
        r = self.world.contains_ext(self, container, item, node)
        if r is not None:
            return r
        raise Unsupported(f"membership in {container!r}")

    # ---- attribute / subscript --------------------------------------------------
    def ev_Attribute(self, node):
        v = self.ev(node.value)
        return self.getattr(v, node.attr, node)

    def getattr(self, v, attr, node):
        st = self.st
        from .codec import VOpt
        if isinstance(v, VOpt) and st.spec:
            return self.getattr(v.val, attr, node)   # clauses guard None-ness themselves
        if isinstance(v, VObj):
            key = (v.oid, attr)
            if key in st.heap:
                self._field_inv(key, st.heap[key], v.cls, attr)
                return st.heap[key]
            cls = v.cls
            if attr == "__class__" and isinstance(cls, type):
                # the object is an instance of exactly the class it is declared with (A2: no
                # subclass instances at the functions under contract)
                self.world.trusted_used.add("obj.__class__ is the declared class of the object (no subclass instances)")
                return self.lift(cls)
            if isinstance(cls, type):
                for k in cls.__mro__:
                    if attr in k.__dict__:
                        m = k.__dict__[attr]
                        if isinstance(m, types.FunctionType):
                            return VFunc(m, recv=v, name=f"{k.__name__}.{attr}")
                        if isinstance(m, property):
                            return self.call_function(m.fget, [v], {}, node,
                                                      name=f"{k.__name__}.{attr}")
                        if isinstance(m, (staticmethod, classmethod)):
                            f = m.__func__
                            recv = VConst(cls) if isinstance(m, classmethod) else None
                            return VFunc(f, recv=recv, name=f"{k.__name__}.{attr}")
                        if type(m).__name__ in ("member_descriptor", "getset_descriptor"):
                            break   # __slots__ entry: an instance field
                        if type(m).__name__ == "cached_property":
                            return self.call_function(m.func, [v], {}, node,
                                                      name=f"{k.__name__}.{attr}")
                        return self.lift(m, attr)
            spec = self.world.field_spec(cls, attr)
            if spec is None:
                if st.spec:
                    raise Unsupported(f"unknown field {attr} of {v!r} in a specification")
                raise Unsupported(f"no shape for field {getattr(cls, '__name__', cls)}.{attr}")
            val = self.fresh(spec, f"{v.label or getattr(cls, '__name__', 'o')}.{attr}")
            st.heap[key] = val
            # lazily materialised: the field had this value in every live pre-state too
            for o in self.live_olds + ([st.old] if st.old is not None else []):
                if key not in o.heap:
                    o.heap[key] = val
                    if isinstance(val, VList) and val.oid in st.lists and val.oid not in o.lists:
                        o.lists[val.oid] = st.lists[val.oid].copy()
            if self.live_heap is not None and key not in self.live_heap:
                self.live_heap[key] = val
            self._field_inv(key, val, cls, attr)
            return val
        if isinstance(v, VTuple) and v.names and attr in v.names:
            return v.items[v.names.index(attr)]
        if isinstance(v, VTuple) and v.cls is not None and hasattr(v.cls, attr):
            m = _inspect.getattr_static(v.cls, attr)
            if isinstance(m, property):
                return self.call_function(m.fget, [v], {}, node, name=f"{v.cls.__name__}.{attr}")
            if isinstance(m, types.FunctionType):
                return VFunc(m, recv=v, name=f"{v.cls.__name__}.{attr}")
        if isinstance(v, VConst):
            obj = v.obj
            if isinstance(obj, (types.ModuleType, type)) or hasattr(obj, attr):
                try:
                    m = getattr(obj, attr)
                except AttributeError:
                    self.throw(AttributeError, node, "SAFE-Attr")
                if isinstance(obj, (dict, frozenset, set, list)) or _is_regex(obj):
                    return VFunc(None, recv=v, builtin=f"{type(obj).__name__}.{attr}", name=attr)
                return self.lift(m, attr)
        if isinstance(v, VAtom):
            try:
                o = sym.atom_obj(v)
            except KeyError:
                dom = self.world.atom_candidates(self, v)
                k = self.choose(len(dom), "atom attr")
                self.assume(v.t == dom[k])
                if not self.feasible():
                    raise _PathEnd()
                o = sym.ATOMS.obj(dom[k])
            if o is None or not hasattr(o, attr):
                if self.st.spec:
                    return VOpaque("attribute of None in a specification")   # total in clauses
                self.note_safe("SAFE-None", _src(node), getattr(node, "lineno", 0))
                self.throw(AttributeError, node, "SAFE-None")
            m = getattr(o, attr)
            if callable(m) and not isinstance(m, (enum.Enum, type)):
                return VFunc(m, name=attr, builtin=None) if isinstance(
                    m, types.FunctionType) else VFunc(None, recv=v, builtin=f"atom.{attr}",
                                                      name=attr)
            return self.lift(m, attr)
        if isinstance(v, (VStr, VList, VDict, VInt)):
            return VFunc(None, recv=v, builtin=f"{v.kind}.{attr}", name=attr)
        if isinstance(v, VExc):
            if attr in v.fields:
                return v.fields[attr]
            if v.exact and v.cls.__module__ == "builtins" and not hasattr(v.cls, attr) \
                    and not self.st.spec:
                # a freshly built built-in exception has no other attributes
                self.note_safe("SAFE-Attr", _src(node), getattr(node, "lineno", 0))
                self.throw(AttributeError, node, "SAFE-Attr")
            return VOpaque(f"exc.{attr}")
        if isinstance(v, VOpaque) and hasattr(v, "encoded"):
            return VFunc(None, recv=v, builtin=f"opaque.{attr}", name=attr)
        if isinstance(v, VOpaque) and getattr(v, "abstract_set", False):
            return VFunc(None, recv=v, builtin=f"aset.{attr}", name=attr)
        if isinstance(v, VOpaque) and getattr(v, "abstract_mm", False) and attr == "items":
            return VFunc(None, recv=v, builtin="amm.items", name=attr)
        r = self.world.getattr_ext(self, v, attr, node)
        if r is not None:
            return r
        if self.st.spec and isinstance(v, VOpaque):
            return VOpaque("attribute of an undefined value in a specification")
        raise Unsupported(f"attribute {attr} of {v!r}")

    def _field_inv(self, key, val, cls, attr):
        """Structure invariants (Contract.field_invariants): assumed once per object, the first time
        the field is read by the code (not while a clause is evaluated: the clause of one token reads
        the next one)."""
        st = self.st
        fi = getattr(self.contract, "field_invariants", None) if self.contract else None
        if not fi or st.spec or not isinstance(val, VObj) or not isinstance(cls, type):
            return
        done = st.ghost.setdefault(("field_inv_done",), set())
        if key in done or val.oid in self.fresh_objs:
            return
        done.add(key)
        for k in cls.__mro__:
            for clause in fi.get(f"{k.__name__}.{attr}", ()):
                self.assumptions.add(f"structure invariant assumed when {k.__name__}.{attr} "
                                     f"is read: {clause}")
                ref0 = self.frames[-1].get("ref") if self.frames else None
                self.assume(self.spec_eval(clause, dict(st.env, v=val), ref0 or self.fnref))

    def setattr(self, v, attr, val, node):
        if isinstance(v, VObj):
            self.check_frame(v, attr, node)
            if isinstance(val, VDict) and not self.st.dicts[val.oid]:
                fs = self.world.field_spec(v.cls, attr)
                if isinstance(fs, tuple) and fs and fs[0] == "map":
                    from . import maps
                    val = maps.new_map(self, fs, [])
            self.st.heap[(v.oid, attr)] = val
            return
        if isinstance(v, VExc):
            v.fields[attr] = val
            return
        r = self.world.setattr_ext(self, v, attr, val, node)
        if r:
            return
        raise Unsupported(f"attribute store {attr} on {v!r}")

    def check_frame(self, v, attr, node):
        """FRAME: a store to a pre-existing object must be allowed by the modifies clause."""
        c = self.contract
        if c is None or c.modifies is None or self.st.spec:
            return
        if v.oid in self.fresh_objs:
            return  # objects allocated by this activation are not part of the frame
        allowed = {m.split(".")[-1] for m in c.modifies}
        self.oblige("FRAME", f"store to .{attr}", z3.BoolVal(attr in allowed),
                    getattr(node, "lineno", 0))

    def ev_Subscript(self, node):
        v = self.ev(node.value)
        sl = node.slice
        if isinstance(sl, ast.Slice):
            lo = None if sl.lower is None else self.as_int(self.ev(sl.lower), sl.lower)
            hi = None if sl.upper is None else self.as_int(self.ev(sl.upper), sl.upper)
            if sl.step is not None:
                raise Unsupported("slice step")
            return self.slice(v, lo, hi, node)
        idx = self.ev(sl)
        return self.index(v, idx, node)

    def slice(self, v, lo, hi, node):
        if isinstance(v, VStr):
            return sym.str_slice(v, lo, hi)
        if isinstance(v, VTuple):
            lo = None if lo is None else _conc(lo)
            hi = None if hi is None else _conc(hi)
            return VTuple(v.items[lo:hi])
        if isinstance(v, VList):
            L = self.st.lists[v.oid]
            n = L.len
            a = z3.IntVal(0) if lo is None else sym.norm_index(lo, n)
            b = n if hi is None else sym.norm_index(hi, n)
            b = z3.If(b < a, a, b)
            a, b = z3.simplify(a), z3.simplify(b)
            if L.items is not None and z3.is_int_value(a) and z3.is_int_value(b):
                return self.new_list(L.items[a.as_long(): b.as_long()])
            oid = self.fresh_oid()
            arrays = None
            if L.arrays is not None:
                if z3.eq(a, z3.IntVal(0)):
                    arrays = list(L.arrays)
                else:
                    arrays = []
                    for arr in L.arrays:
                        j = z3.Int(self.namer.fresh("j"))
                        arrays.append(z3.Lambda([j], z3.Select(arr, a + j)))
            self.st.lists[oid] = ListObj(z3.simplify(b - a), None, L.spec, arrays)
            return VList(oid)
        r = self.world.slice_ext(self, v, lo, hi, node)
        if r is not None:
            return r
        raise Unsupported(f"slice of {v!r}")

    def index(self, v, idx, node):
        if self.st.spec and (isinstance(idx, (VAtom, VOpaque)) or isinstance(v, (VOpaque, VAtom))):
            return VOpaque("undefined subscript in a specification")   # total inside clauses
        if isinstance(v, VStr):
            i = self.as_int(idx, node)
            n = v.length()
            self.guard(z3.And(-n <= i, i < n), IndexError, node, "SAFE-Index")
            j = z3.simplify(z3.If(i < 0, i + n, i))
            if v.lit is not None:
                if z3.is_int_value(j):
                    return VStr(lit=v.lit[j.as_long()])
                v = sym.as_view(v)
            return VStr(arr=v.arr, lo=z3.simplify(v.lo + j), hi=z3.simplify(v.lo + j + 1))
        if isinstance(v, VTuple):
            i = z3.simplify(self.as_int(idx, node))
            if z3.is_int_value(i):
                k = i.as_long()
                if -len(v.items) <= k < len(v.items):
                    return v.items[k]
                self.note_safe("SAFE-Index", _src(node), node.lineno)
                self.throw(IndexError, node, "SAFE-Index")
            raise Unsupported("symbolic index into a tuple")
        if isinstance(v, VList):
            L = self.st.lists[v.oid]
            i = self.as_int(idx, node)
            n = L.len
            self.guard(z3.And(-n <= i, i < n), IndexError, node, "SAFE-Index")
            j = z3.simplify(z3.If(i < 0, i + n, i))
            if L.items is not None and z3.is_int_value(j):
                return L.items[j.as_long()]
            return self.world.list_item(self, v, L, j, node)
        if isinstance(v, VConst) and isinstance(v.obj, dict):
            return self.const_dict_lookup(v, idx, node, default=None, raising=True)
        if isinstance(v, VDict):
            d = self.st.dicts[v.oid]
            if isinstance(idx, VStr) and idx.lit is not None:
                if idx.lit in d:
                    return d[idx.lit]
                self.throw(KeyError, node, "SAFE-Key")
        if isinstance(v, VOpaque) and getattr(v, "abstract_mm", False):
            lst = self.fresh_list(getattr(v, "elem_spec", None), "mm_entry")
            self.mm_lists[lst.oid] = v
            return lst
        r = self.world.index_ext(self, v, idx, node)
        if r is not None:
            return r
        raise Unsupported(f"index into {v!r}")

    def const_dict_lookup(self, dv, key, node, default, raising):
        """Lookup of a symbolic key in a concrete table: forks over the entries."""
        d = dv.obj
        keys = list(d)
        conds = [self.equal(key, self.lift(k), node) for k in keys]
        # choose the matching entry (or none)
        for k, c in zip(keys, conds):
            cs = z3.simplify(c)
            if z3.is_true(cs):
                return self.lift(d[k])
        live = [(k, c) for k, c in zip(keys, conds) if not z3.is_false(z3.simplify(c))]
        for k, c in live:
            if self.decide(c):
                return self.lift(d[k])
        if raising:
            self.note_safe("SAFE-Key", _src(node), getattr(node, "lineno", 0))
            self.throw(KeyError, node, "SAFE-Key")
        return default if default is not None else atom(None)

    # ---- calls --------------------------------------------------------------------
    def ev_Call(self, node):
        if self.st.spec and isinstance(node.func, ast.Name):
            r = self.spec_form(node)
            if r is not None:
                return r
        f = self.ev(node.func)
        args = []
        for a in node.args:
            if isinstance(a, ast.Starred):
                sv = self.ev_arg(a.value)
                try:
                    args.extend(self.iter_concrete(sv, a))
                except Unsupported:
                    if not isinstance(sv, VList):
                        raise
                    args.append(StarArgs(sv))
            else:
                args.append(self.ev_arg(a))
        kwargs = {}
        for kw in node.keywords:
            if kw.arg is None:
                if isinstance(f, VDyn):
                    self.ev(kw.value)   # **mapping passed to a user callable: havocked anyway
                    continue
                raise Unsupported("**kwargs call")
            kwargs[kw.arg] = self.ev_arg(kw.value)
        return self.call(f, args, kwargs, node)

    def ev_arg(self, a):
        if isinstance(a, (ast.GeneratorExp, ast.ListComp)):
            return self.world.comprehension(self, a)
        if isinstance(a, ast.Lambda):
            return VFunc(None, builtin="lambda", name="<lambda>", recv=VConst((a, dict(self.st.env))))
        return self.ev(a)

    def ev_Await(self, node):
        """`await e` inside a coroutine under contract: e is evaluated (a call of an async function
        yields an opaque awaitable without running it); then other tasks may run - every field of
        every object that this activation did not create, and every ghost counter, is arbitrary
        afterwards - and the await either raises some Exception or yields some value."""
        arg_len = None
        if isinstance(node.value, ast.Call) and isinstance(node.value.func, ast.Attribute) \
                and node.value.func.attr == "gather" and len(node.value.args) == 1:
            a0 = self.ev(node.value.args[0])
            if isinstance(a0, VList):
                arg_len = self.st.lists[a0.oid].len
        self.ev(node.value)
        self.world.trusted_used.add(
            "await: any Exception (asyncio.CancelledError, a BaseException, is not modelled) or any "
            "value; objects not created by the activation and ghost counters are havocked; the "
            "interleaving of tasks itself is not explored (A3)")
        st = self.st
        for key in list(st.heap):
            if key[0] not in self.fresh_objs:
                st.heap[key] = self.havoc_like(st.heap[key], str(key[1]))
        for g in list(st.ghost):
            if isinstance(g, str) and isinstance(st.ghost[g], VInt):
                st.ghost[g] = VInt(z3.Int(self.namer.fresh("ghost_" + g)))
        if self.choose(2, "await outcome") == 1:
            raise _Raise(VExc(Exception, origin=_src(node), okind="RAISES", exact=False,
                              lineno=getattr(node, "lineno", 0)))
        r = self.fresh_dyn("awaited")
        if self.depth == 0:
            # clauses can name what the k-th await of the function (source order) delivered
            aw = getattr(self.fnref, "_awaits", None)
            if aw is None:
                aw = self.fnref._awaits = sorted(
                    (n for n in ast.walk(self.fnref.node) if isinstance(n, ast.Await)),
                    key=lambda n: (n.lineno, n.col_offset))
            k = next((i + 1 for i, n in enumerate(aw)
                      if n.lineno == node.lineno and n.col_offset == node.col_offset), None)
            if k is not None:
                self.st.env[f"_awaited_{k}"] = r
        if arg_len is not None:
            self.world.trusted_used.add("await <helpers>.gather(xs): a list with one result per "
                                        "awaitable, in order (len == len(xs))")
            self.sadd(z3.And(sym.tag(r.t) == sym.TAGS["list"], sym.v_len(r.t) == arg_len))
        return r

    def ev_Lambda(self, node):
        return VFunc(None, builtin="lambda", name="<lambda>", recv=VConst((node, dict(self.st.env))))

    def ev_DictComp(self, node):
        return self.world.dict_comprehension(self, node)

    def ev_ListComp(self, node):
        return self.world.comprehension(self, node)

    def ev_GeneratorExp(self, node):
        return self.world.comprehension(self, node)

    def ev_SetComp(self, node):
        # the elements are evaluated (their obligations count); the result is an abstract set
        self.world.comprehension(self, node)
        f = VFunc(None, builtin="bi:set", name="set")
        return self.world.call_builtin(self, f, [], {}, node)

    def call(self, f, args, kwargs, node):
        if isinstance(f, VFunc):
            pre = getattr(f, "pre", None)
            if pre:
                args = list(pre) + list(args)   # functools.partial (pyvc/hof.py)
            if f.builtin:
                return self.world.call_builtin(self, f, args, kwargs, node)
            fn = f.fn
            if f.recv is not None:
                args = [f.recv] + list(args)
            if isinstance(fn, types.FunctionType) and (fn.__module__ or "").startswith("graphql"):
                return self.call_function(fn, args, kwargs, node, name=f.name)
            return self.world.call_builtin(self, VFunc(fn, builtin="py:" + getattr(
                fn, "__qualname__", repr(fn)), name=f.name), args, kwargs, node)
        if isinstance(f, VConst) and isinstance(f.obj, type):
            return self.construct(f.obj, args, kwargs, node)
        if isinstance(f, VAtom):
            try:
                o = sym.atom_obj(f)
            except KeyError:
                o = None
            if isinstance(o, type):
                return self.construct(o, args, kwargs, node)
        if isinstance(f, VObj) and isinstance(f.cls, type):
            for k in f.cls.__mro__:
                m = k.__dict__.get("__call__")
                if isinstance(m, types.FunctionType):
                    return self.call_function(m, [f] + list(args), kwargs, node,
                                              name=f"{k.__name__}.__call__")
        r = self.world.call_ext(self, f, args, kwargs, node)
        if r is not None:
            return r
        raise Unsupported(f"call of {f!r}: {_src(node)}")

    def construct(self, cls, args, kwargs, node):
        w = self.world
        if issubclass(cls, tuple) and hasattr(cls, "_fields"):
            names = list(cls._fields)
            defaults = getattr(cls, "_field_defaults", {})
            items = list(args)
            for n in names[len(items):]:
                if n in kwargs:
                    items.append(kwargs[n])
                elif n in defaults:
                    items.append(self.lift(defaults[n]))
                else:
                    self.throw(TypeError, node, "SAFE-Call")
            return VTuple(items, names=names, cls=cls)
        if issubclass(cls, BaseException):
            return w.construct_exception(self, cls, args, kwargs, node)
        r = w.construct_ext(self, cls, args, kwargs, node)
        if r is not None:
            return r
        obj = VObj(cls, self.fresh_oid(), cls.__name__.lower())
        self.fresh_objs.add(obj.oid)
        init = cls.__dict__.get("__init__") or next(
            (k.__dict__["__init__"] for k in cls.__mro__ if "__init__" in k.__dict__), None)
        if isinstance(init, types.FunctionType):
            self.call_function(init, [obj] + list(args), kwargs, node,
                               name=f"{cls.__name__}.__init__")
        elif args or kwargs:
            raise Unsupported(f"constructor of {cls.__name__}")
        return obj

    def call_function(self, fn, args, kwargs, node, name=None):
        """Call of a real python function: by contract if it has one, else inlined."""
        ref = self.world.fnref_of(fn)
        c = self.world.contract_for(ref)
        if self.st.spec:
            if c is not None and c.pure_spec is not None:
                return c.pure_spec(self, args, kwargs)
            # pure helper: inline even in spec mode
        if isinstance(ref.node, ast.AsyncFunctionDef):
            # calling a coroutine function runs nothing: the result is an awaitable
            self.world.trusted_used.add("a call of an `async def` function returns an awaitable "
                                        "without running its body")
            v = VOpaque("coroutine " + ref.short)
            return v
        if c is not None and not (ref.qual == self.fnref.qual and self.depth == 0 and False):
            return self.call_by_contract(ref, c, args, kwargs, node)
        if ref.node is None:
            raise Unsupported(f"no source for {ref.qual}")
        if self.depth >= 6:
            raise Unsupported(f"inlining depth exceeded at {ref.qual}")
        if any(fr.get("ref") is not None and fr["ref"].qual == ref.qual for fr in self.frames[1:]) \
                or (ref.qual == self.fnref.qual):
            raise Unsupported(f"recursive call of {ref.qual} without a contract")
        return self.inline(ref, args, kwargs, node)

    def bind_params(self, fnode, args, kwargs, node, ref):
        a = fnode.args
        env = {}
        params = [p.arg for p in a.posonlyargs + a.args]
        defaults = [None] * (len(params) - len(a.defaults)) + list(a.defaults)
        args = list(args)
        if len(args) > len(params) and a.vararg is None:
            self.throw(TypeError, node, "SAFE-Call")
        for i, p in enumerate(params):
            if i < len(args):
                env[p] = args[i]
            elif p in kwargs:
                env[p] = kwargs.pop(p)
            elif defaults[i] is not None:
                env[p] = self.eval_default(defaults[i], ref)
            else:
                self.throw(TypeError, node, "SAFE-Call")
        if any(isinstance(x, StarArgs) for x in args[:len(params)]):
            raise Unsupported("symbolic *args bound to positional parameters")
        if a.vararg is not None:
            rest = args[len(params):]
            if any(isinstance(x, StarArgs) for x in rest):
                env[a.vararg.arg] = self.build_varargs(rest, ref, a.vararg.arg)
            else:
                env[a.vararg.arg] = VTuple(rest)
        for p, d in zip(a.kwonlyargs, a.kw_defaults):
            if p.arg in kwargs:
                env[p.arg] = kwargs.pop(p.arg)
            elif d is not None:
                env[p.arg] = self.eval_default(d, ref)
            else:
                self.throw(TypeError, node, "SAFE-Call")
        if kwargs:
            if a.kwarg is None:
                self.throw(TypeError, node, "SAFE-Call")
            raise Unsupported("**kwargs parameter")
        return env

    def build_varargs(self, rest, ref, pname):
        """*args made of concrete items and symbolic lists: one list value with array contents."""
        from . import codec
        c = self.world.contract_for(ref)
        spec = c.params.get(pname) if c is not None else None
        if not (isinstance(spec, (tuple, list)) and spec and spec[0] == "list"):
            raise Unsupported(f"symbolic *args need a ('list', elem) spec for *{pname} of {ref.short}")
        elem = spec[1]
        arrays = codec.fresh_arrays(self, elem, pname)
        pos = z3.IntVal(0)
        for x in rest:
            if isinstance(x, StarArgs):
                L = self.st.lists[x.lst.oid]
                if L.arrays is None or L.spec is None:
                    raise Unsupported("symbolic *args of unknown element kind")
                j = z3.Int(self.namer.fresh("j"))
                saved = self.st.spec
                self.st.spec = True
                try:
                    item, _ = codec.decode(self, L.spec,
                                           [z3.Select(a2, j - pos) for a2 in L.arrays],
                                           assume=False)
                    terms = codec.encode(self, elem, item)
                finally:
                    self.st.spec = saved
                inside = z3.And(pos <= j, j < pos + L.len)
                arrays = [z3.Lambda([j], z3.If(inside, t, z3.Select(arr, j)))
                          for arr, t in zip(arrays, terms)]
                pos = z3.simplify(pos + L.len)
            else:
                terms = codec.encode(self, elem, x)
                arrays = [z3.Store(arr, pos, t) for arr, t in zip(arrays, terms)]
                pos = z3.simplify(pos + 1)
        oid = self.fresh_oid()
        self.st.lists[oid] = ListObj(z3.simplify(pos), None, elem, arrays)
        return VList(oid)

    def eval_default(self, dnode, ref):
        saved_env = self.st.env
        self.st.env = {}
        self.frames.append({"globals": ref.globals, "ref": ref})
        try:
            return self.ev(dnode)
        finally:
            self.frames.pop()
            self.st.env = saved_env

    def inline(self, ref, args, kwargs, node):
        fnode = ref.node
        env = self.bind_params(fnode, args, dict(kwargs), node, ref)
        saved_env = self.st.env
        self.st.env = env
        self.frames.append({"globals": ref.globals, "ref": ref})
        self.depth += 1
        try:
            try:
                self.exec_block(fnode.body)
                return atom(None)
            except _Return as r:
                return r.val
        finally:
            self.depth -= 1
            self.frames.pop()
            self.st.env = saved_env

    def call_by_contract(self, ref, c, args, kwargs, node):
        """Modular call: check requires, havoc the frame, assume ensures / raise as declared."""
        fnode = ref.node
        if c.assumed:
            self.world.trusted_used.add(f"assumed (unverified) contract of {ref.qual}: "
                                        f"ensures {c.ensures}, raises {c.raises}")
        env = self.bind_params(fnode, args, dict(kwargs), node, ref)
        st = self.st
        site = f"{_src(node.func) if isinstance(node, ast.Call) else ref.qual}"
        # PRE
        if not st.spec:
            for p, pspec in c.params.items():
                chk = self.world.arg_checks.get(pspec) if isinstance(pspec, str) else None
                if chk is not None and p in env:
                    ok, why = chk(self, env[p], env, ref)
                    text = f"{ref.short}: argument {p} is a {pspec}"
                    self.oblige("PRE", text, z3.BoolVal(bool(ok)), getattr(node, "lineno", 0))
                    if not ok:
                        ob = self.obls.get((self.fnref.qual, "PRE", text))
                        if ob is not None and why not in ob.detail:
                            ob.detail += why
            for clause in c.requires:
                g = self.spec_eval(clause, env, ref)
                self.oblige("PRE", f"{ref.short}: {clause}", g, getattr(node, "lineno", 0))
                self.assume(g)
            for clause in getattr(c, "class_invariants", ()):
                self.world.trusted_used.add(f"class invariant assumed at calls of {ref.qual}: {clause}")
                self.assume(self.spec_eval(clause, env, ref))
            if c.decreases and ref.qual == self.fnref.qual and self.entry_env is not None:
                if isinstance(c.decreases, (list, tuple)):
                    # lexicographic measure; the caller's side is taken in the entry state (a
                    # component may be a ghost or depend on mutable state)
                    goal = z3.BoolVal(False)
                    eq_so_far = z3.BoolVal(True)
                    nonneg = []
                    for d in c.decreases:
                        mc = self.as_int(self.spec_value_in(d, env, ref), node)
                        saved_old = self.st.old
                        try:
                            if self.live_olds:
                                self.st.old = self.live_olds[0]
                            me = self.as_int(self.spec_value_in(f"old({d})", self.entry_env, ref), node)
                        finally:
                            self.st.old = saved_old
                        nonneg.append(mc >= 0)
                        goal = z3.Or(goal, z3.And(eq_so_far, mc < me))
                        eq_so_far = z3.And(eq_so_far, mc == me)
                    goal = z3.And(goal, *nonneg)
                else:
                    m_callee = self.as_int(self.spec_value_in(c.decreases, env, ref), node)
                    m_caller = self.as_int(self.spec_value_in(c.decreases, self.entry_env, ref), node)
                    goal = z3.And(m_callee >= 0, m_callee < m_caller)
                if getattr(c, "decreases_when", None):
                    goal = z3.Implies(self.spec_eval(c.decreases_when, self.entry_env, ref), goal)
                vtext = f"recursive call decreases {c.decreases}"
                if isinstance(c.decreases, (list, tuple)):
                    nm = ref.short.split(".")[-1]
                    calls = sorted((n for n in ast.walk(self.fnref.node) if isinstance(n, ast.Call) and (
                        (isinstance(n.func, ast.Name) and n.func.id == nm)
                        or (isinstance(n.func, ast.Attribute) and n.func.attr == nm))),
                        key=lambda n: (n.lineno, n.col_offset))
                    k = next((i + 1 for i, n in enumerate(calls) if n.lineno == getattr(node, "lineno", -1)
                              and n.col_offset == getattr(node, "col_offset", -1)), 0)
                    vtext = f"recursive call #{k} decreases ({', '.join(c.decreases)}) lexicographically"
                self.oblige("VARIANT", vtext, goal, getattr(node, "lineno", 0))
        if not st.spec and self.depth == 0 and self.contract is not None and self.contract.call_pre \
                and isinstance(node, ast.Call):
            self.check_call_pre(ref, env, node)
        if not st.spec and self.depth == 0 and self.contract is not None and self.contract.rely:
            rl = self.contract.rely.get(ref.short)
            if rl is not None:
                self.apply_rely(ref, rl, node)
        old = st.snapshot()
        old.old = None
        self.live_olds.append(old)
        try:
            return self._call_by_contract2(ref, c, env, old, node)
        finally:
            self.live_olds.pop()

    def check_call_pre(self, ref, env, node):
        """Call-site assertions of the function under proof: which arguments go to which call."""
        name = ref.short.split(".")[-1]
        if name == "__init__" and ref.cls is not None:
            name = ref.cls.__name__      # a constructor call is written with the class name
        if not any(k.split("#")[0] == name for k in self.contract.call_pre):
            return
        sites = getattr(self, "_call_sites", None)
        if sites is None:
            sites = self._call_sites = {}
        if name not in sites:
            calls = [n for n in ast.walk(self.fnref.node) if isinstance(n, ast.Call) and (
                (isinstance(n.func, ast.Name) and n.func.id == name)
                or (isinstance(n.func, ast.Attribute) and n.func.attr == name))]
            calls.sort(key=lambda n: (n.lineno, n.col_offset))
            sites[name] = calls
        k = next((i + 1 for i, n in enumerate(sites[name])
                  if n.lineno == node.lineno and n.col_offset == node.col_offset), None)
        clauses = self.contract.call_pre.get(f"{name}#{k}")
        if clauses is None:
            # a call of this callee that the contract does not know (e.g. after a refactoring):
            # the contract does not fit the code - undecided, not a violation
            raise Unsupported(f"call site #{k} of {name} has no call-site assertion in the contract")
        env2 = dict(self.st.env)
        env2.update({"arg_" + p: v for p, v in env.items()})
        # entry_<param>: the value a (possibly rebound) parameter had on entry
        env2.update({"entry_" + p: v for p, v in (self.entry_env or {}).items()})
        fr = self.frames[-1].get("ref") or self.fnref
        for clause in clauses:
            try:
                g = self.spec_eval(clause, env2, fr)
            except Unsupported as e:
                if "unknown name" in str(e):
                    if _never_bound(self.fnref.node, str(e)):
                        raise Unsupported(f"contract clause mentions a local the function no longer "
                                          f"binds ({e}): {name}#{k}: {clause}")
                    continue   # mentions a local that is not bound on this path
                raise
            self.oblige("CALL", f"{name}#{k}: {clause}", g, node.lineno)

    def apply_rely(self, ref, rl, node):
        """Callback reasoning (rely/guarantee, cut like a loop): the callee may run the local
        closure rl['closure'] any number of times and nothing else touches what it captures.
        RELY-INIT: the invariant holds at the call; RELY-PRES: one run of the closure body from
        any state satisfying it re-establishes it (normal return or exception); afterwards the
        captured mutable state is havocked and the invariant assumed."""
        cl = self.st.env.get(rl["closure"])
        if not (isinstance(cl, VFunc) and cl.builtin == "closure"):
            raise Unsupported(f"rely: {rl['closure']} is not a local function")
        fnode, _cenv = cl.recv.obj
        if any(isinstance(x, (ast.Nonlocal, ast.Global)) for x in ast.walk(fnode)):
            raise Unsupported("rely: closure rebinds outer names")
        fr = self.frames[-1].get("ref") or self.fnref
        line = getattr(node, "lineno", 0)
        for clause in rl["inv"]:
            self.oblige("RELY-INIT", f"{ref.short}/{rl['closure']}: {clause}",
                        self.spec_eval(clause, self.st.env, fr), line)
        mode = self.choose(2, "rely " + rl["closure"])
        _names, _attrs, calls = self.assigned_in(fnode.body)
        for oid in self.world.mutated_lists(self, calls):
            if oid in self.st.lists:
                self.havoc_list(oid, "lst")
        for clause in rl["inv"]:
            self.assume(self.spec_eval(clause, self.st.env, fr))
        if not self.feasible():
            raise _PathEnd()
        if mode == 0:
            args = [VOpaque(p.arg) for p in fnode.args.args]
            try:
                self.world.call_builtin(self, cl, args, {}, node)
            except _Raise as r:
                allowed = rl.get("raises")
                if allowed is not None:
                    ok = any(issubclass(r.exc.cls, self.world.resolve_class(a)) for a in allowed)
                    self.oblige("RELY-RAISES", f"{ref.short}/{rl['closure']}: raises only {sorted(allowed)}"
                                f" ({r.exc.cls.__name__} from `{r.exc.origin}`)" if not ok else
                                f"{ref.short}/{rl['closure']}: raises only {sorted(allowed)}",
                                z3.BoolVal(ok), line)
            for clause in rl["inv"]:
                self.oblige("RELY-PRES", f"{ref.short}/{rl['closure']}: {clause}",
                            self.spec_eval(clause, self.st.env, fr), line)
            raise _PathEnd()

    def _call_by_contract2(self, ref, c, env, old, node):
        st = self.st
        # havoc modifies
        if not st.spec:
            for m in (c.modifies or ()):
                self.havoc_field(m, env)
            for g in c.ghost_modifies:
                self.ghost_get(g)
                st.ghost[g] = VInt(z3.Int(self.namer.fresh("ghost_" + g)))
                from . import namesets
                namesets.havoc_for_ghost(self, g)
            if getattr(c, "modifies_maps", False):
                from . import maps
                maps.havoc_heap(self)
            for g in c.ghost_calls:
                self.ghost_bump(g)   # the ghost counts the calls of this function
        # outcomes: normal + each declared exception class
        outcomes = ["normal"] + list(c.raises)
        if c.no_return:
            outcomes = list(c.raises)
        k = self.choose(len(outcomes), "call " + ref.short) if len(outcomes) > 1 and not st.spec else 0
        outcome = outcomes[k]
        if outcome == "normal":
            if isinstance(c.returns, str) and c.returns.startswith("field:"):
                # the result is the (new) value of a field of the receiver, e.g. Lexer.token
                res = self.getattr(env["self"], c.returns[6:], node)
            else:
                res = self.fresh(c.returns, ref.short + "_ret") if c.returns else atom(None)
            env2 = dict(env)
            if "result" in env2:
                env2["arg_result"] = env2["result"]
            env2["result"] = res
            import re as _re
            for clause in c.ensures:
                m = _re.match(r"^self\.(\w+) is (\w+)$", clause.strip())
                if m and not st.spec and isinstance(env.get("self"), VObj) \
                        and isinstance(env.get(m.group(2)), (VObj, VList)):
                    # `self.f is param` binds the field to the argument object itself (an identity
                    # between two separately materialised objects could not be assumed)
                    st.heap[(env["self"].oid, m.group(1))] = env[m.group(2)]
                    continue
                self.assume(self.spec_eval(clause, env2, ref, old=old))
            for clause in getattr(c, "assumed_ensures", ()):
                self.world.trusted_used.add(f"assumed (not proved) about {ref.qual}: {clause}")
                self.assume(self.spec_eval(clause, env2, ref, old=old))
            if not st.spec and not self.feasible():
                raise _PathEnd()
            return res
        cls = self.world.resolve_class(outcome)
        for clause in c.on_raise.get(outcome, ()):
            self.assume(self.spec_eval(clause, env, ref, old=old))
        if not self.feasible():
            raise _PathEnd()
        raise _Raise(VExc(cls, origin=f"call of {ref.short}", okind="RAISES",
                          lineno=getattr(node, "lineno", 0)))

    def havoc_field(self, m, env):
        """m is 'self.line' style path or 'Class.attr'."""
        st = self.st
        attr = m.split(".")[-1]
        for key in list(st.heap):
            if key[1] == attr:
                old = st.heap[key]
                st.heap[key] = self.havoc_like(old, attr)
        for (cname, a) in getattr(self.world, "mutable_ref_fields", {}):
            if a == attr:
                from .refs import RefS
                st.refheap[(cname, a)] = z3.Array(self.namer.fresh(f"rh_{cname}_{a}"), RefS, sym.ValS)

    def havoc_list(self, oid, label):
        from . import codec
        L = self.st.lists[oid]
        n = z3.Int(self.namer.fresh(label + "_len"))
        self.assume(n >= 0)
        spec = L.spec
        if spec is None and L.items:
            specs = {codec.infer_spec(x) for x in L.items}
            if len(specs) == 1:
                spec = specs.pop()
        arrays = codec.fresh_arrays(self, spec, label) if spec is not None else None
        self.st.lists[oid] = ListObj(n, None, spec, arrays)

    def havoc_like(self, v, label):
        if isinstance(v, VInt):
            return self.fresh_int(label)
        if isinstance(v, VBool):
            return self.fresh_bool(label)
        if isinstance(v, VStr):
            return self.fresh_str(label)
        if isinstance(v, VAtom):
            dom = self.world.atom_candidates(self, v)
            t = z3.Int(self.namer.fresh(label))
            if dom:
                self.assume(sor(*[t == c for c in dom]))
            return VAtom(t)
        if isinstance(v, VList):
            self.havoc_list(v.oid, label)
            return v
        if isinstance(v, VDyn):
            return self.fresh_dyn(label)
        if isinstance(v, VObj):
            return VObj(v.cls, self.fresh_oid(), label)   # another object of the same class
        if isinstance(v, VTuple):
            return VTuple([self.havoc_like(x, label) for x in v.items], v.names, v.cls)
        if isinstance(v, VFloat):
            return self.world.fresh_float(self, label)
        return VOpaque(label)

    # ---- specification expressions ---------------------------------------------------
    def spec_eval(self, clause, env, ref, old=None, extra=None):
        """Evaluate a contract clause (python expression text) to a z3 Bool."""
        tree = self.world.parse_clause(clause)
        st = self.st
        saved = (st.env, st.spec, st.old)
        st.env = dict(env)
        if extra:
            st.env.update(extra)
        st.spec = True
        if old is not None:
            st.old = old
        self.frames.append({"globals": ref.globals if ref else {}, "ref": None})
        try:
            v = self.ev(tree)
            return self.truth(v)
        finally:
            self.frames.pop()
            st.env, st.spec, st.old = saved

    def spec_form(self, node):
        """Special forms of the contract language (evaluated only in spec mode)."""
        name = node.func.id
        st = self.st
        if name == "implies":
            a, b2 = node.args
            return VBool(z3.Implies(self.truth(self.ev(a)), self.truth(self.ev(b2))))
        if name == "ite":
            c, a, b2 = node.args
            return self.merge(self.truth(self.ev(c)), self.ev(a), self.ev(b2))
        if name == "forall_ref":
            from .refs import RefS, VRef
            var, cname, body = node.args
            bv = z3.Const(self.namer.fresh(var.id), RefS)
            saved = st.env.get(var.id)
            st.env[var.id] = VRef(bv, self.world.resolve_class(cname.value))
            try:
                p = self.truth(self.ev(body))
            finally:
                if saved is None:
                    st.env.pop(var.id, None)
                else:
                    st.env[var.id] = saved
            return VBool(z3.ForAll([bv], p))
        if name == "forall_int":
            *vars_, body = node.args
            bvs = []
            saved = {}
            for var in vars_:
                bv = z3.Int(self.namer.fresh(var.id))
                bvs.append(bv)
                saved[var.id] = st.env.get(var.id)
                st.env[var.id] = VInt(bv)
            self.bound_vars = getattr(self, "bound_vars", []) + bvs
            try:
                p = self.truth(self.ev(body))
            finally:
                self.bound_vars = self.bound_vars[:-len(bvs)] if bvs else self.bound_vars
                for k2, v2 in saved.items():
                    if v2 is None:
                        st.env.pop(k2, None)
                    else:
                        st.env[k2] = v2
            return VBool(z3.ForAll(bvs, p))
        if name in ("forall", "exists"):
            var, lo, hi, body = node.args
            if not isinstance(var, ast.Name):
                raise Unsupported("forall: first argument must be a name")
            lo_t = z3.simplify(self.as_int(self.ev(lo), lo))
            hi_t = z3.simplify(self.as_int(self.ev(hi), hi))
            if z3.is_int_value(lo_t) and z3.is_int_value(hi_t) and \
                    hi_t.as_long() - lo_t.as_long() <= 16:
                # finite range: expand
                ps = []
                saved = st.env.get(var.id)
                try:
                    for k in range(lo_t.as_long(), hi_t.as_long()):
                        st.env[var.id] = VInt(k)
                        ps.append(self.truth(self.ev(body)))
                finally:
                    if saved is None:
                        st.env.pop(var.id, None)
                    else:
                        st.env[var.id] = saved
                return VBool(sand(*ps) if name == "forall" else sor(*ps))
            bv = z3.Int(self.namer.fresh(var.id))
            saved = st.env.get(var.id)
            st.env[var.id] = VInt(bv)
            self.bound_vars = getattr(self, "bound_vars", []) + [bv]
            try:
                p = self.truth(self.ev(body))
            finally:
                self.bound_vars = self.bound_vars[:-1]
                if saved is None:
                    st.env.pop(var.id, None)
                else:
                    st.env[var.id] = saved
            rng = z3.And(lo_t <= bv, bv < hi_t)
            if name == "forall":
                return VBool(z3.ForAll([bv], z3.Implies(rng, p)))
            return VBool(z3.Exists([bv], z3.And(rng, p)))
        if name == "at_iter_start":
            (e,) = node.args
            snap = self.iter_snaps[-1]
            saved_old = st.old
            saved_env0 = st.env
            st.old = snap
            # locals too have their value of the start of the iteration (names bound only now,
            # e.g. quantified variables of the clause, stay visible)
            st.env = {**st.env, **snap.env}
            try:
                return self.spec_form(ast.Call(func=ast.Name(id="old", ctx=ast.Load()), args=[e],
                                               keywords=[]))
            finally:
                st.old = saved_old
                st.env = saved_env0
        if name == "old":
            (e,) = node.args
            if st.old is None:
                return self.ev(e)
            saved = (st.heap, st.lists, st.dicts, st.old)
            saved_maps = (st.mdom, st.mval, st.mnext)
            saved_refheap = st.refheap
            st.refheap = dict(st.old.refheap)
            if st.old.mdom is not None:
                st.mdom, st.mval, st.mnext = st.old.mdom, st.old.mval, st.old.mnext
            saved_live = self.live_heap
            self.live_heap = st.heap
            saved_ghost, saved_live_ghost = st.ghost, self.live_ghost
            self.live_ghost = st.ghost
            st.ghost = st.old.ghost
            st.heap, st.lists, st.dicts = st.old.heap, st.old.lists, st.old.dicts
            saved_env = st.env
            st.env = dict(st.env)
            st.old = None
            try:
                return self.ev(e)
            finally:
                st.heap, st.lists, st.dicts, st.old = saved
                st.mdom, st.mval, st.mnext = saved_maps
                st.refheap = saved_refheap
                st.env = saved_env
                self.live_heap = saved_live
                st.ghost, self.live_ghost = saved_ghost, saved_live_ghost
        if name == "ghost":
            gname = node.args[0].value
            return self.ghost_get(gname)
        if name in self.world.spec_funcs:
            args = [self.ev(a) for a in node.args]
            return self.world.spec_funcs[name](self, *args)
        return None

    def ghost_get(self, gname):
        st = self.st
        if gname not in st.ghost:
            v = VInt(z3.Int(self.namer.fresh("ghost_" + gname)))
            st.ghost[gname] = v
            for o in self.live_olds + ([st.old] if st.old is not None else []):
                o.ghost.setdefault(gname, v)
            if self.live_ghost is not None:
                self.live_ghost.setdefault(gname, v)
        return st.ghost[gname]

    def ghost_bump(self, gname):
        cur = self.ghost_get(gname)
        self.st.ghost[gname] = VInt(cur.t + 1)

    # ---- statements ------------------------------------------------------------------
    def exec_block(self, stmts):
        for s in stmts:
            self.exec(s)

    def exec(self, node):
        c = self.contract
        if c is not None and c.havoc_stmts and self.depth == 0 and isinstance(node, ast.Expr) \
                and _src(node) in c.havoc_stmts:
            self.assumptions.add(f"statement skipped (assumed not to raise): {_src(node)}")
            return None
        if c is not None and c.havoc_stmts and self.depth == 0 and isinstance(
                node, (ast.Assign, ast.AnnAssign)):
            if _src(node) in c.havoc_stmts:
                self.assumptions.add(f"statement treated as havoc (assumed not to raise): {_src(node)}")
                targets = node.targets if isinstance(node, ast.Assign) else [node.target]
                for t in targets:
                    for y in ast.walk(t):
                        if isinstance(y, ast.Name):
                            self.st.env[y.id] = self.fresh_dyn(y.id)
                return None
        m = getattr(self, "ex_" + type(node).__name__, None)
        if m is None:
            raise Unsupported(f"statement {type(node).__name__} (line {node.lineno})")
        self.cur_line = node.lineno
        return m(node)

    def ex_Expr(self, node):
        if isinstance(node.value, ast.Constant):
            return
        self.ev(node.value)

    def ex_Pass(self, node):
        pass

    def ex_Return(self, node):
        raise _Return(self.ev(node.value) if node.value is not None else atom(None))

    def ex_Break(self, node):
        raise _Break()

    def ex_Continue(self, node):
        raise _Continue()

    def ex_Assert(self, node):
        c = self.truth(self.ev(node.test))
        self.guard(c, AssertionError, node, "SAFE-Assert")

    def ex_Assign(self, node):
        if isinstance(node.value, ast.Dict) and len(node.targets) == 1 \
                and isinstance(node.targets[0], ast.Subscript):
            from .maps import VMap
            tgt = node.targets[0]
            obj = self.ev(tgt.value)
            if isinstance(obj, VMap) and isinstance(obj.spec[1], tuple):
                pairs = [(self.ev(k), self.ev(v)) for k, v in zip(node.value.keys, node.value.values)]
                m = self.world.dict_literal(self, pairs, obj.spec[1])
                self.setitem(obj, self.ev(tgt.slice), m, node)
                return
        v = self.ev(node.value)
        if os.environ.get("PYVC_DEBUG") and isinstance(node.targets[0], ast.Name) and node.targets[0].id == os.environ["PYVC_DEBUG"]:
            print("ASSIGN", node.targets[0].id, repr(v), getattr(v, "t", None), getattr(getattr(v, "is_none", None), "sexpr", lambda: None)())
        for t in node.targets:
            self.assign(t, v, node)

    def ex_AnnAssign(self, node):
        if node.value is not None:
            self.assign(node.target, self.ev(node.value), node)

    def ex_AugAssign(self, node):
        cur = self.ev(_load(node.target))
        v = self.binop(node.op, cur, self.ev(node.value), node)
        self.assign(node.target, v, node)

    def assign(self, target, v, node):
        if isinstance(target, ast.Name):
            c = self.contract if self.depth == 0 else None
            if c is not None and getattr(v, "abstract_set", False):
                lspec = c.locals.get(target.id)
                if isinstance(lspec, tuple) and lspec and lspec[0] == "nameset":
                    # a local `set()` of names declared in the contract: modelled exactly
                    # (membership array, empty at creation) instead of the abstract set
                    from . import namesets
                    s = namesets.VNameSet(self.fresh_oid(), lspec[1])
                    namesets.mem_of(self, s)
                    self.st.ghost[("nameset", s.oid)] = z3.K(sym.I, z3.BoolVal(False))
                    self.assume(namesets.measure(self, s) >= 0)
                    v = s
            self.st.env[target.id] = v
            return
        if isinstance(target, (ast.Tuple, ast.List)) and any(
                isinstance(e, ast.Starred) for e in target.elts):
            self.assign_starred(target, v, node)
            return
        if isinstance(target, (ast.Tuple, ast.List)):
            items = self.unpack(v, len(target.elts), node)
            for t, x in zip(target.elts, items):
                self.assign(t, x, node)
            return
        if isinstance(target, ast.Attribute):
            obj = self.ev(target.value)
            self.setattr(obj, target.attr, v, node)
            return
        if isinstance(target, ast.Subscript):
            obj = self.ev(target.value)
            key = self.ev(target.slice)
            self.setitem(obj, key, v, node)
            return
        raise Unsupported(f"assignment target {_src(target)}")

    def assign_starred(self, target, v, node):
        k = next(i for i, e in enumerate(target.elts) if isinstance(e, ast.Starred))
        before, after = target.elts[:k], target.elts[k + 1:]
        star = target.elts[k].value
        if isinstance(v, VTuple) or (isinstance(v, VList) and self.st.lists[v.oid].items is not None):
            items = list(v.items) if isinstance(v, VTuple) else list(self.st.lists[v.oid].items)
            if len(items) < len(before) + len(after):
                self.throw(ValueError, node, "SAFE-Unpack")
            for t, x in zip(before, items):
                self.assign(t, x, node)
            self.assign(star, self.new_list(items[len(before): len(items) - len(after)]), node)
            for t, x in zip(after, items[len(items) - len(after):]):
                self.assign(t, x, node)
            return
        if isinstance(v, VList):
            L = self.st.lists[v.oid]
            self.guard(L.len >= len(before) + len(after), ValueError, node, "SAFE-Unpack")
            for i, t in enumerate(before):
                self.assign(t, self.world.list_item(self, v, L, z3.IntVal(i), node), node)
            self.assign(star, self.slice(v, z3.IntVal(len(before)), L.len - len(after), node), node)
            for i, t in enumerate(after):
                self.assign(t, self.world.list_item(self, v, L, L.len - len(after) + i, node), node)
            return
        raise Unsupported(f"starred unpacking of {v!r}")

    def unpack(self, v, n, node):
        if isinstance(v, VTuple):
            if len(v.items) != n:
                self.throw(ValueError, node, "SAFE-Unpack")
            return v.items
        if isinstance(v, VList):
            L = self.st.lists[v.oid]
            if L.items is not None and len(L.items) == n:
                return L.items
        r = self.world.unpack_ext(self, v, n, node)
        if r is not None:
            return r
        raise Unsupported(f"unpacking of {v!r}")

    def setitem(self, obj, key, v, node):
        if isinstance(obj, VDict) and isinstance(key, VStr) and key.lit is not None:
            self.st.dicts[obj.oid][key.lit] = v
            return
        if isinstance(obj, VDict) and isinstance(key, VStr):
            # a local dict written with a computed key: from now on an abstract dict (contents
            # unknown: reads give any value, the length any natural number >= 1)
            self.st.ghost[("absdict", obj.oid)] = True
            self.world.trusted_used.add("a local dict written with computed keys is abstracted "
                                        "(reads give any value)")
            return
        if isinstance(obj, VDict) and self.st.ghost.get(("absdict", obj.oid)):
            return
        if isinstance(obj, VList):
            L = self.st.lists[obj.oid]
            i = self.as_int(key, node)
            self.guard(z3.And(-L.len <= i, i < L.len), IndexError, node, "SAFE-Index")
            j = z3.simplify(z3.If(i < 0, i + L.len, i))
            if L.items is not None and z3.is_int_value(j):
                L.items[j.as_long()] = v
            elif L.items is not None:
                # symbolic position in a literal list: contents become unknown
                self.havoc_list(obj.oid, "lst")
                L2 = self.st.lists[obj.oid]
                self.assume(L2.len == L.len)
            elif L.arrays is not None:
                from . import codec
                try:
                    terms = codec.encode(self, L.spec, v)
                    L.arrays = [z3.Store(a, j, t) for a, t in zip(L.arrays, terms)]
                except Unsupported:
                    L.arrays = codec.fresh_arrays(self, L.spec, "lst")
            return
        if self.world.setitem_ext(self, obj, key, v, node):
            return
        raise Unsupported(f"item store into {obj!r}")

    def ex_If(self, node):
        c = self.truth(self.ev(node.test))
        if self.decide(c):
            self.exec_block(node.body)
        else:
            self.exec_block(node.orelse)

    def ex_Raise(self, node):
        if node.exc is None:
            cur = self.st.env.get("$exc")
            if cur is None:
                raise Unsupported("bare raise outside handler")
            raise _Raise(cur)
        v = self.ev(node.exc)
        if node.cause is not None:
            self.ev(node.cause)
        if isinstance(v, VConst) and isinstance(v.obj, type) and issubclass(v.obj, BaseException):
            v = self.construct(v.obj, [], {}, node)
        if isinstance(v, VConst) and isinstance(v.obj, BaseException):
            v = VExc(type(v.obj), origin=_src(node), lineno=node.lineno)   # a module-level instance
        if isinstance(v, VExc):
            v.origin = v.origin or _src(node)
            v.lineno = node.lineno
            v.direct = self.depth == 0     # raised by a statement of the function under proof
            raise _Raise(v)
        if isinstance(v, VDyn):
            # `raise <value>`: an exception object supplied by the caller (some Exception)
            raise _Raise(VExc(Exception, origin=_src(node), okind="RAISES", exact=False,
                              lineno=node.lineno))
        r = self.world.raise_ext(self, v, node)
        raise Unsupported(f"raise of {v!r}")

    def ex_Try(self, node):
        def run_final():
            if node.finalbody:
                self.exec_block(node.finalbody)
        try:
            try:
                self.exec_block(node.body)
            except _Raise as r:
                exc = r.exc
                for h in node.handlers:
                    m = self.handler_matches(h, exc)
                    if m:
                        saved = self.st.env.get("$exc")
                        self.st.env["$exc"] = exc
                        if h.name:
                            self.st.env[h.name] = exc
                        try:
                            self.exec_block(h.body)
                        finally:
                            if saved is None:
                                self.st.env.pop("$exc", None)
                            else:
                                self.st.env["$exc"] = saved
                        break
                else:
                    raise
            else:
                self.exec_block(node.orelse)
        except (_Raise, _Return, _Break, _Continue):
            run_final()
            raise
        run_final()

    def handler_matches(self, h, exc):
        if h.type is None:
            return True
        tv = self.ev(h.type)
        classes = []
        for x in (tv.items if isinstance(tv, VTuple) else [tv]):
            if isinstance(x, VConst) and isinstance(x.obj, type):
                classes.append(x.obj)
            elif isinstance(x, VAtom):
                classes.append(sym.atom_obj(x))
            else:
                raise Unsupported(f"handler type {_src(h.type)}")
        for cls in classes:
            if issubclass(exc.cls, cls):
                return True
        if not exc.exact:
            # exc is "some subclass of exc.cls": it may or may not be caught by a narrower handler
            narrower = [cls for cls in classes if issubclass(cls, exc.cls)]
            if narrower:
                if self.choose(2, "exc subclass") == 0:
                    return True
        return False

    # ---- loops -------------------------------------------------------------------------
    def loop_contract(self, node):
        ref = self.frames[-1].get("ref") if self.frames else None
        if self.depth == 0:
            c = self.contract
            ordinal = self.world.loop_ordinal(self.fnref, node)
        else:
            c = None
            ordinal = None
            if ref is not None:
                c = self.world.loop_contracts_for(ref)
                ordinal = self.world.loop_ordinal(ref, node)
        if c is None:
            # loops of inlined callees inherit the blanket invariants of the function under proof
            if self.contract is not None and self.contract.loop_all:
                return {"invariant": self.contract.loop_all}, ordinal
            return None, ordinal
        lc = c.loops.get(ordinal)
        if lc is not None and "invariant" not in lc and c.loop_all:
            lc = dict(lc, invariant=c.loop_all)
        if lc is None and c.loop_all:
            lc = {"invariant": c.loop_all}
        elif lc is None and self.contract is not None and self.contract.loop_all:
            lc = {"invariant": self.contract.loop_all}
        return lc, ordinal

    def assigned_in(self, body_nodes):
        names, attrs, calls = set(), set(), []
        self._subscript_stored = set()
        for n in body_nodes:
            for x in ast.walk(n):
                if isinstance(x, (ast.Assign, ast.AugAssign, ast.AnnAssign, ast.For)):
                    targets = x.targets if isinstance(x, ast.Assign) else [x.target]
                    for t in targets:
                        for y in ast.walk(t):
                            if isinstance(y, ast.Name) and isinstance(y.ctx, ast.Store):
                                names.add(y.id)
                            elif isinstance(y, ast.Attribute) and isinstance(y.ctx, ast.Store):
                                attrs.add(y.attr)
                elif isinstance(x, ast.NamedExpr):
                    names.add(x.target.id)
                if isinstance(x, (ast.Assign, ast.AugAssign)):
                    for t in (x.targets if isinstance(x, ast.Assign) else [x.target]):
                        if isinstance(t, ast.Subscript) and isinstance(t.value, ast.Name):
                            self._subscript_stored.add(t.value.id)
                elif isinstance(x, ast.Call):
                    calls.append(x)
                elif isinstance(x, ast.ExceptHandler) and x.name:
                    names.add(x.name)
        return names, attrs, calls

    def havoc_loop(self, node, extra_names=()):
        names, attrs, calls = self.assigned_in(node.body + getattr(node, "orelse", []))
        names |= set(extra_names)
        st = self.st
        for nm in getattr(self, "_subscript_stored", ()):
            dv = st.env.get(nm)
            if isinstance(dv, VDict):
                st.ghost[("absdict", dv.oid)] = True   # written in the loop: contents unknown
        # declared element specs of local lists (contract.locals)
        c = self.contract if self.depth == 0 else None
        if c is not None:
            for lname, lspec in c.locals.items():
                lv = st.env.get(lname)
                if isinstance(lv, VList) and isinstance(lspec, tuple) and lspec[0] == "list":
                    L = st.lists[lv.oid]
                    if L.spec is None:
                        L.spec = lspec[1]
        # attributes modified by callees (through their modifies clauses / known mutators)
        attrs |= self.world.callee_modifies(self, calls)
        def _dyn_callee(call):
            f = call.func
            base = f.value if isinstance(f, ast.Attribute) else f
            if isinstance(base, ast.Name):
                v = st.env.get(base.id)
                return v is None or isinstance(v, (VDyn, VOpaque))
            return True
        if c is not None and c.dyn_call_ghost and any(_dyn_callee(x) for x in calls):
            g0 = c.dyn_call_ghost[0]
            self.ghost_get(g0)
            st.ghost[g0] = VInt(z3.Int(self.namer.fresh("ghost_" + g0)))
        # local name sets that the loop body adds to / removes from: membership unknown at the cut
        from . import namesets as _ns
        for x in calls:
            f = x.func
            if isinstance(f, ast.Attribute) and isinstance(f.value, ast.Name) \
                    and f.attr in ("add", "discard", "remove", "clear", "update"):
                sv = st.env.get(f.value.id)
                if isinstance(sv, _ns.VNameSet):
                    _ns.havoc(self, sv)
        # declared specs of scalar locals: havoc to a fresh value of that spec
        if c is not None:
            for lname, lspec in c.locals.items():
                if lname in names and not (isinstance(lspec, tuple) and lspec and lspec[0] == "list"):
                    st.env[lname] = self.fresh(lspec, lname)
                    names = names - {lname}
        for g in self.world.callee_ghost_modifies(self, calls):
            self.ghost_get(g)
            st.ghost[g] = VInt(z3.Int(self.namer.fresh("ghost_" + g)))
            from . import namesets
            namesets.havoc_for_ghost(self, g)
        # dicts of the map heap that the loop body (or a callee that declares it) stores into
        map_written = False
        for x in ast.walk(ast.Module(body=list(node.body) + list(getattr(node, "orelse", [])), type_ignores=[])):
            tgt = None
            if isinstance(x, ast.Subscript) and isinstance(x.ctx, (ast.Store, ast.Del)) and isinstance(x.value, ast.Name):
                tgt = st.env.get(x.value.id)
            elif isinstance(x, ast.Call) and isinstance(x.func, ast.Attribute) and isinstance(x.func.value, ast.Name) \
                    and x.func.attr in ("setdefault", "pop", "update", "clear", "popitem"):
                tgt = st.env.get(x.func.value.id)
            if getattr(tgt, "kind", None) == "map":
                map_written = True
                from . import maps
                rg = maps.rank_ghost(tgt)
                if rg is not None:
                    self.ghost_get(rg)
                    gv = z3.Int(self.namer.fresh("ghost_" + rg))
                    st.ghost[rg] = VInt(gv)
                    self.assume(gv >= 0)
        if not map_written:
            map_written = self.world.callee_modifies_maps(self, calls)
        if map_written:
            from . import maps
            maps.havoc_heap(self)
        # name sets (visited sets) the loop body adds to: contents and measure unknown
        for x in calls:
            f = x.func
            if isinstance(f, ast.Attribute) and f.attr in ("add", "update", "discard", "clear", "remove"):
                tgt = None
                if isinstance(f.value, ast.Name):
                    tgt = st.env.get(f.value.id)
                elif isinstance(f.value, ast.Attribute):
                    for key, val in st.heap.items():
                        if key[1] == f.value.attr and getattr(val, "kind", None) == "nameset":
                            tgt = val
                if getattr(tgt, "kind", None) == "nameset":
                    from . import namesets
                    namesets.havoc(self, tgt)
        # lists mutated via methods or aliases bound to their methods
        mutated = self.world.mutated_lists(self, calls)
        for n in names:
            if n in st.env:
                st.env[n] = self.havoc_like(st.env[n], n)
        for key in list(st.heap):
            if key[1] in attrs:
                st.heap[key] = self.havoc_like(st.heap[key], key[1])
        for oid in mutated:
            if oid in st.lists:
                self.havoc_list(oid, "lst")

    def check_invariants(self, lc, kind, ordinal, ref, extra=None):
        if lc is None:
            return
        for clause in lc.get("invariant", ()):
            try:
                g = self.spec_eval(clause, self.st.env, ref, extra=extra)
            except Unsupported as e:
                if "unknown name" in str(e) and _never_bound(self.fnref.node, str(e)):
                    # the invariant talks about a local the function no longer has (renamed or
                    # removed): the contract does not fit the code any more - undecided, not a
                    # violation (a harmless rename must not raise an alarm)
                    raise Unsupported(f"contract clause mentions a local the function no longer "
                                      f"binds ({e}): loop {ordinal}: {clause}")
                raise
            self.oblige(kind, f"loop {ordinal}: {clause}", g, self.cur_line)

    def assume_invariants(self, lc, ref, extra=None):
        if lc is None:
            return
        for clause in lc.get("invariant", ()):
            self.assume(self.spec_eval(clause, self.st.env, ref, extra=extra))

    def ex_While(self, node):
        lc, ordinal = self.loop_contract(node)
        ref = self.frames[-1].get("ref") or self.fnref
        if lc is None:
            self.assumptions.add(f"loop {ordinal} of {ref.qual}: no invariant supplied (havoc only)")
        self.check_invariants(lc, "INV-INIT", ordinal, ref)
        peel = bool(lc and lc.get("peel"))
        mode = self.choose(3 if peel else 2, f"loop {ordinal}")
        if mode == 2:
            # peeled first iteration: the body runs from the state in which the loop is reached
            # (no havoc), so aliases between the loop variables and the rest of the heap are exact;
            # the invariants must hold after it
            c = self.truth(self.ev(node.test))
            self.assume(c)
            if not self.feasible():
                raise _PathEnd()
            try:
                self.exec_block(node.body)
            except _Break:
                return
            except _Continue:
                pass
            self.check_invariants(lc, "INV-PRES", ordinal, ref)
            raise _PathEnd()
        self.havoc_loop(node)
        self.assume_invariants(lc, ref)
        if not self.feasible():
            raise _PathEnd()
        c = self.truth(self.ev(node.test))
        if mode == 0:
            self.assume(c)
            if not self.feasible():
                raise _PathEnd()
            v0 = None
            if lc and lc.get("variant"):
                v0 = self.as_int(self.spec_value(lc["variant"], ref), node)
            fell_through = True
            self.iter_snaps.append(self.st.snapshot())
            try:
                self.exec_block(node.body)
            except _Break:
                self.iter_snaps.pop()
                return
            except _Continue:
                fell_through = False
            except BaseException:
                self.iter_snaps.pop()
                raise
            if fell_through and lc and lc.get("step_post"):
                # end-of-iteration assertions (may mention locals of the iteration just executed)
                for clause in lc["step_post"]:
                    try:
                        g = self.spec_eval(clause, self.st.env, ref)
                    except Unsupported as e:
                        if "unknown name" in str(e):
                            continue
                        raise
                    self.oblige("STEP", f"loop {ordinal}: {clause}", g, self.cur_line)
            self.iter_snaps.pop()
            self.check_invariants(lc, "INV-PRES", ordinal, ref)
            if v0 is not None:
                v1 = self.as_int(self.spec_value(lc["variant"], ref), node)
                self.oblige("VARIANT", f"loop {ordinal}: {lc['variant']}",
                            z3.And(v0 >= 0, v1 < v0), self.cur_line)
            raise _PathEnd()
        self.assume(z3.Not(c))
        if not self.feasible():
            raise _PathEnd()
        self.exec_block(node.orelse)

    def spec_value_in(self, expr, env, ref):
        tree = self.world.parse_clause(expr)
        st = self.st
        saved = (st.env, st.spec)
        st.env = dict(env)
        st.spec = True
        self.frames.append({"globals": ref.globals if ref else {}, "ref": None})
        try:
            return self.ev(tree)
        finally:
            self.frames.pop()
            st.env, st.spec = saved

    def spec_value(self, expr, ref, extra=None):
        tree = self.world.parse_clause(expr)
        st = self.st
        saved = (st.env, st.spec)
        st.env = dict(st.env)
        if extra:
            st.env.update(extra)
        st.spec = True
        self.frames.append({"globals": ref.globals if ref else {}, "ref": None})
        try:
            return self.ev(tree)
        finally:
            self.frames.pop()
            st.env, st.spec = saved

    def ex_For(self, node):
        it = self.ev(node.iter)
        seq = self.world.as_sequence(self, it, node.iter)
        if seq.concrete is not None:
            # concrete small sequence: unroll
            try:
                for item in seq.concrete:
                    self.assign(node.target, item, node)
                    try:
                        self.exec_block(node.body)
                    except _Continue:
                        continue
                else_run = True
            except _Break:
                else_run = False
            if else_run:
                self.exec_block(node.orelse)
            return
        lc, ordinal = self.loop_contract(node)
        ref = self.frames[-1].get("ref") or self.fnref
        if lc is None:
            self.assumptions.add(f"loop {ordinal} of {ref.qual}: no invariant supplied (havoc only)")
        n = seq.length
        self.check_invariants(lc, "INV-INIT", ordinal, ref, extra={"_i": VInt(0)})
        mode = self.choose(2, f"for {ordinal}")
        target_names = {y.id for y in ast.walk(node.target) if isinstance(y, ast.Name)}
        self.havoc_loop(node, extra_names=())
        i = z3.Int(self.namer.fresh("_i"))
        if mode == 0:
            self.assume(z3.And(0 <= i, i < n))
            self.assume_invariants(lc, ref, extra={"_i": VInt(i)})
            if not self.feasible():
                raise _PathEnd()
            self.assign(node.target, seq.item(i), node)
            if isinstance(node.iter, ast.Attribute) and isinstance(node.iter.value, ast.Name) \
                    and isinstance(node.target, ast.Name):
                from . import namesets
                namesets.child_fact(self, self.st.env.get(node.target.id), self.st.env.get(node.iter.value.id))
            self.iter_snaps.append(self.st.snapshot())
            fell_through = True
            try:
                try:
                    self.exec_block(node.body)
                except _Break:
                    return
                except _Continue:
                    fell_through = False
                except _Return as r:
                    if lc and lc.get("return_post") and self.depth == 0:
                        # assertions about a `return` taken from inside this loop's body
                        for clause in lc["return_post"]:
                            try:
                                g = self.spec_eval(clause, self.st.env, ref,
                                                   extra={"_i": VInt(i), "result": r.val})
                            except Unsupported as e:
                                if "unknown name" in str(e):
                                    if _never_bound(self.fnref.node, str(e)):
                                        raise Unsupported(f"contract clause mentions a local the function no longer "
                                                          f"binds ({e}): loop {ordinal}: {clause}")
                                    continue
                                raise
                            self.oblige("RET-IN-LOOP", f"loop {ordinal}: {clause}", g, self.cur_line)
                    raise
                if fell_through and lc and lc.get("step_post"):
                    for clause in lc["step_post"]:
                        try:
                            g = self.spec_eval(clause, self.st.env, ref, extra={"_i": VInt(i)})
                        except Unsupported as e:
                            if "unknown name" in str(e):
                                if _never_bound(self.fnref.node, str(e)):
                                    raise Unsupported(f"contract clause mentions a local the function no longer "
                                                      f"binds ({e}): loop {ordinal}: {clause}")
                                continue   # mentions a local that is not bound on this path
                            raise
                        self.oblige("STEP", f"loop {ordinal}: {clause}", g, self.cur_line)
                if lc and lc.get("iter_post"):
                    # end-of-iteration assertions that also hold on `continue` paths
                    for clause in lc["iter_post"]:
                        try:
                            g = self.spec_eval(clause, self.st.env, ref, extra={"_i": VInt(i)})
                        except Unsupported as e:
                            if "unknown name" in str(e):
                                if _never_bound(self.fnref.node, str(e)):
                                    raise Unsupported(f"contract clause mentions a local the function no longer "
                                                      f"binds ({e}): loop {ordinal}: {clause}")
                                continue
                            raise
                        self.oblige("ITER", f"loop {ordinal}: {clause}", g, self.cur_line)
            finally:
                self.iter_snaps.pop()
            self.check_invariants(lc, "INV-PRES", ordinal, ref, extra={"_i": VInt(i + 1)})
            raise _PathEnd()
        self.assume(i == n)
        self.assume_invariants(lc, ref, extra={"_i": VInt(i)})
        for tn in target_names:
            self.st.env.pop(tn, None)
            self.st.env[tn] = VOpaque(tn)
        if not self.feasible():
            raise _PathEnd()
        self.exec_block(node.orelse)

    def ex_With(self, node):
        r = self.world.with_ext(self, node)
        if r:
            return
        raise Unsupported("with statement")

    def ex_Delete(self, node):
        for t in node.targets:
            if isinstance(t, ast.Subscript):
                obj = self.ev(t.value)
                if getattr(obj, "kind", None) == "nameset":
                    self.world.ns_remove(self, obj, self.ev(t.slice), node)
                    continue
                if getattr(obj, "kind", None) == "map":
                    from . import maps
                    k = maps.key_of(self, self.ev(t.slice))
                    self.guard(maps.has(self, obj, k), KeyError, node, "SAFE-Key")
                    maps.delete(self, obj, k)
                    continue
            raise Unsupported("del statement")

    def ex_FunctionDef(self, node):
        self.st.env[node.name] = VFunc(None, builtin="closure", name=node.name,
                                       recv=VConst((node, self.st.env)))

    def ex_AsyncFunctionDef(self, node):
        # defining a coroutine function executes nothing; calling it yields an opaque awaitable
        self.st.env[node.name] = VFunc(None, builtin="async_def", name=node.name)

    def ex_Import(self, node):
        raise Unsupported("import statement")

    def ex_ImportFrom(self, node):
        ref = self.frames[-1].get("ref") or self.fnref
        self.world.import_from(self, node, ref)


def _never_bound(fnode, msg):
    """True when the `unknown name X` of msg is a name the function binds nowhere (so a clause
    mentioning it cannot be skipped as 'not bound on this path': the local no longer exists)."""
    name = msg.split("unknown name", 1)[1].strip().split()[0] if "unknown name" in msg else None
    if not name:
        return False
    for x in ast.walk(fnode):
        if isinstance(x, ast.Name) and x.id == name and isinstance(x.ctx, ast.Store):
            return False
        if isinstance(x, ast.arg) and x.arg == name:
            return False
        if isinstance(x, (ast.FunctionDef, ast.AsyncFunctionDef, ast.ClassDef)) and x.name == name:
            return False
        if isinstance(x, ast.ExceptHandler) and x.name == name:
            return False
        if isinstance(x, ast.alias) and (x.asname or x.name) == name:
            return False
    return True


def _has_quantifier(t):
    seen = set()
    todo = [t]
    while todo:
        x = todo.pop()
        if z3.is_quantifier(x):
            if not x.is_lambda():
                return True
            todo.append(x.body())
            continue
        i = x.get_id()
        if i in seen:
            continue
        seen.add(i)
        if z3.is_app(x):
            todo.extend(x.children())
    return False


def _truthy(o):
    try:
        return bool(o)
    except Exception:  # pragma: no cover
        return True


def _has_custom_eq(cls):
    return isinstance(cls, type) and cls.__eq__ is not object.__eq__


def _is_regex(obj):
    import re
    return isinstance(obj, re.Pattern)


def _conc(t):
    t = z3.simplify(t)
    if z3.is_int_value(t):
        return t.as_long()
    raise Unsupported("symbolic bound where a constant is needed")


def _load(target):
    import copy
    t = copy.deepcopy(target)
    for x in ast.walk(t):
        if hasattr(x, "ctx"):
            x.ctx = ast.Load()
    return t


def _floordiv(x, y):
    # python floor division; z3 integer division is euclidean (floor for a positive divisor)
    return z3.If(y > 0, x / y, (-x) / (-y))


def _pymod(x, y):
    return z3.If(y > 0, x % y, -((-x) % (-y)))
