"""Verification driver: one function under contract -> obligations and verdicts."""
from __future__ import annotations

import ast
import hashlib
import time
import traceback
import z3

from . import sym
from .sym import VObj, VInt, VStr, VBool, VAtom, VTuple, Unsupported, atom
from .interp import (Interp, State, _Return, _Raise, _PathEnd, _Break, _Continue, VExc, _src)


def infer_param_spec(world, ref, pname, ann):
    if pname == "self" and ref.cls is not None:
        return "obj:" + ref.cls.__module__ + "." + ref.cls.__qualname__
    a = ann.strip() if ann else ""
    simple = {"int": "int", "str": "str", "bool": "bool", "Any": "dyn"}
    if a in simple:
        return simple[a]
    raise Unsupported(f"no type spec for parameter {pname}: {a!r} (declare it in the contract)")


def verify_function(world, target, contract, timeout_ms=20000):
    """target: 'module:qualname'.  Returns a result dict."""
    modname, qual = target.split(":")
    t0 = time.time()
    ref = world.fnref(modname, qual)
    res = {
        "target": target, "qual": ref.qual, "status": "ok", "obligations": [], "paths": 0,
        "solver_time_s": 0.0, "solver_calls": 0, "assumptions": [], "reachable_exits": 0,
        "source_sha": None, "lines": None, "undecided_reason": None,
    }
    if ref.node is None:
        res["status"] = "undecided"
        res["undecided_reason"] = "function not found in the current source tree"
        return res
    if isinstance(ref.node, ast.AsyncFunctionDef) and not contract.coroutine:
        res["status"] = "undecided"
        res["undecided_reason"] = "async function: outside the verified subset (A3)"
        return res
    res["source_sha"] = hashlib.sha256(ast.dump(ref.node).encode()).hexdigest()[:16]
    res["lines"] = [ref.node.lineno, ref.node.end_lineno]
    for dec in ref.node.decorator_list:
        dn = _src(dec)
        if dn.split("(")[0] not in ("staticmethod", "classmethod", "property", "cached_property"):
            res["status"] = "undecided"
            res["undecided_reason"] = f"decorator {dn} is outside the verified subset"
            return res
    it = Interp(world, ref, contract, timeout_ms=timeout_ms)
    it.fresh_objs = set()
    try:
        while True:
            prefix = it.explorer.next_prefix()
            if prefix is None:
                break
            run_path(world, it, ref, contract)
    except Unsupported as e:
        res["status"] = "undecided"
        res["undecided_reason"] = f"unsupported: {e} (near line {getattr(it, 'cur_line', '?')})"
    except Exception as e:  # engine error: never a violation
        res["status"] = "error"
        res["undecided_reason"] = f"{type(e).__name__}: {e}\n{traceback.format_exc()[-3000:]}"
    res["paths"] = it.explorer.paths
    res["solver_time_s"] = round(it.solver_time, 3)
    res["solver_calls"] = it.solver_calls
    res["assumptions"] = sorted(it.assumptions)
    res["reachable_exits"] = it.reachable_exits
    for ob in it.obls.values():
        res["obligations"].append({
            "id": ob.oid, "func": ob.func, "kind": ob.kind, "text": ob.text, "line": ob.lineno,
            "status": ob.status, "paths": ob.paths, "time_s": round(ob.time, 4),
            "model": ob.model, "detail": ob.detail, "backend": ob.backend,
        })
    if res["status"] == "ok" and it.reachable_exits == 0:
        res["status"] = "error"
        res["undecided_reason"] = "vacuous: no reachable exit (contradictory requires?)"
    res["wall_s"] = round(time.time() - t0, 3)
    return res


def run_path(world, it, ref, contract):
    it.new_path()
    st = it.st = State()
    it.fresh_objs = set()
    it.frames = [{"globals": ref.globals, "ref": ref}]
    it.depth = 0
    fnode = ref.node
    a = fnode.args
    params = a.posonlyargs + a.args + a.kwonlyargs
    it.param_syms = {}
    try:
        for p in params:
            spec = contract.params.get(p.arg)
            if spec is None:
                spec = infer_param_spec(world, ref, p.arg, _src(p.annotation) if p.annotation else "")
            v = it.fresh(spec, p.arg)
            st.env[p.arg] = v
            it.param_syms[p.arg] = v
        if a.vararg is not None:
            spec = contract.params.get(a.vararg.arg)
            if spec is None:
                raise Unsupported("*args parameter needs a type spec")
            st.env[a.vararg.arg] = it.fresh(spec, a.vararg.arg)
            it.param_syms[a.vararg.arg] = st.env[a.vararg.arg]
        if a.kwarg is not None:
            raise Unsupported("**kwargs parameter")
        for cname, cspec in contract.closure.items():
            v = it.fresh(cspec, cname)
            st.env[cname] = v
            it.param_syms[cname] = v
        for clause in contract.requires:
            it.assume(it.spec_eval(clause, st.env, ref))
        for clause in contract.class_invariants:
            it.assumptions.add(f"class invariant assumed on entry: {clause}")
            it.assume(it.spec_eval(clause, st.env, ref))
        if not it.feasible():
            return
        old = st.snapshot()
        st.old = old
        it.live_olds = [old]
        penv = dict(st.env)
        it.entry_env = penv
    except _PathEnd:
        return
    result = None
    exc = None
    locals_env = None
    try:
        body = fnode.body
        if contract.start_at:
            k = next((i for i, n in enumerate(body) if _src(n).startswith(contract.start_at)), None)
            if k is None:
                raise Unsupported(f"start_at statement not found: {contract.start_at}")
            it.assumptions.add(f"statements before `{contract.start_at}` are cut: the names and "
                               "attributes they assign are arbitrary afterwards, their exceptions "
                               "are not analysed here")
            names, attrs, _calls = it.assigned_in(body[:k])
            for nm in names:
                st.env[nm] = it.fresh_dyn(nm)
            me = st.env.get("self")
            for a_ in attrs:
                if isinstance(me, VObj):
                    spec = world.field_spec(me.cls, a_) or "dyn"
                    st.heap[(me.oid, a_)] = it.fresh(spec, a_)
            body = body[k:]
        it.exec_block(body)
        result = atom(None)
        locals_env = dict(st.env)
    except _Return as r:
        result = r.val
        locals_env = dict(st.env)
    except _Raise as r:
        exc = r.exc
        locals_env = dict(st.env)
    except _PathEnd:
        return
    except (_Break, _Continue):
        raise Unsupported("break/continue outside loop")
    if not it.feasible():
        return
    it.reachable_exits += 1
    try:
        if exc is None:
            env = dict(penv)
            if "result" in env:
                env["arg_result"] = env["result"]   # a parameter called `result` stays reachable
            env["result"] = result
            for clause in contract.ensures:
                g = it.spec_eval(clause, env, ref, old=old)
                it.oblige("POST", clause, g, fnode.lineno)
            if contract.exit_post and locals_env is not None:
                env2 = dict(locals_env)
                env2["result"] = result
                for clause in contract.exit_post:
                    try:
                        g = it.spec_eval(clause, env2, ref, old=old)
                    except Unsupported as e:
                        if "unknown name" in str(e):
                            from .interp import _never_bound
                            if _never_bound(fnode, str(e)):
                                raise Unsupported(f"contract clause mentions a local the function no "
                                                  f"longer binds ({e}): {clause}")
                            continue   # a local that is not bound on this return path
                        raise
                    it.oblige("EXIT", clause, g, fnode.lineno)
        else:
            declared = None
            for nv in contract.never_raises:
                if issubclass(exc.cls, world.resolve_class(nv)):
                    it.oblige("RAISES", f"{exc.cls.__name__} from `{exc.origin}` (must never escape)",
                              False, exc.lineno)
                    return
            for d in contract.raises:
                dcls = world.resolve_class(d)
                if issubclass(exc.cls, dcls):
                    # an exception raised by a built-in operation of the library code itself
                    # (IndexError, KeyError, ...) is not covered by a blanket `Exception`, which is
                    # meant for what user callbacks raise
                    if exc.okind.startswith("SAFE") and dcls in (Exception, BaseException):
                        continue
                    declared = d
                    break
            if declared is None:
                text = f"{exc.cls.__name__} from `{exc.origin}`"
                if any(wv in text for wv in contract.waive):
                    it.assumptions.add(f"WAIVED (left unverified): {exc.okind} {text}")
                    return
                it.oblige(exc.okind if exc.okind != "RAISES" else "RAISES", text, False, exc.lineno)
            else:
                key = ("RAISES", f"raises only {sorted(contract.raises)}")
                it.note_safe(*key, fnode.lineno)
                if contract.raise_post and getattr(exc, "direct", False):
                    for clause in contract.raise_post:
                        try:
                            g = it.spec_eval(clause, locals_env, ref, old=old)
                        except Unsupported as e:
                            if "unknown name" in str(e):
                                continue
                            raise
                        it.oblige("RAISE-AT", f"line-independent: {clause}", g, exc.lineno)
                for clause in contract.on_raise.get(declared, ()):
                    g = it.spec_eval(clause, penv, ref, old=old)
                    it.oblige("POST-RAISE", f"{declared}: {clause}", g, fnode.lineno)
    except _PathEnd:
        return
